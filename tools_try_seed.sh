#!/bin/bash
# usage: tools_try_seed.sh <seed-id> <check-id> [tier]  -- apply a seeded defect to /repo, run one check, undo
id=$1; chk=$2; tier=${3:-quick}
patch=/tmp/wt/$id-out/patch.diff; [ -f $patch ] || patch=/verif/seeded/$id/patch.diff
cd /verif
git -C /repo status --short | grep -q . && { echo "/repo not clean"; exit 2; }
git -C /repo apply $patch || exit 2
trap 'git -C /repo checkout -- .' EXIT
/usr/bin/time -f "wall=%es" ./check $chk --tier $tier 2>&1 | grep -v "^\[build\]" | grep -E "VIOLATION|INCONCLUSIVE|verdict|wall=|KNOWN" | head -6
ls replays | wc -l
