#!/bin/bash
# usage: tools_verify_seed.sh c10   -- confirm a sub-agent's seeded defect in its scratch worktree /tmp/wt/<id>
# (1) suite passes with the change, (2) demo fails with the change, (3) demo passes without it
id=$1; wt=/tmp/wt/$id; out=/tmp/wt/$id-out
cd $wt || exit 2
git checkout -q -- . ; git clean -fdq tests 2>/dev/null
git apply $out/patch.diff || { echo "PATCH DOES NOT APPLY"; exit 2; }
echo "== suite with change"; cargo test --offline 2>&1 | grep "test result" 
cp $out/demo.rs tests/zz_demo.rs
echo "== demo with change (must fail)"; cargo test --offline --features verif_hooks --test zz_demo 2>&1 | grep "test result\|panicked" | head -5
git apply -R $out/patch.diff
echo "== demo without change (must pass)"; cargo test --offline --features verif_hooks --test zz_demo 2>&1 | grep "test result" 
git apply $out/patch.diff
rm -f tests/zz_demo.rs
git status --short
