#!/usr/bin/env python3
"""tools_keep_seed.py <id> <property> <json-meta-fields...>: copy a confirmed seeded defect from /tmp/wt/<id>-out to /verif/seeded/<id>/"""
import json, os, shutil, sys
sid, prop = sys.argv[1], sys.argv[2]
meta = json.loads(sys.argv[3])
src = "/tmp/wt/%s-out" % sid
dst = "/verif/seeded/%s" % sid
os.makedirs(dst, exist_ok=True)
shutil.copy(os.path.join(src, "patch.diff"), os.path.join(dst, "patch.diff"))
shutil.copy(os.path.join(src, "demo.rs"), os.path.join(dst, "demo.rs"))
if os.path.exists(os.path.join(src, "notes.md")):
    shutil.copy(os.path.join(src, "notes.md"), os.path.join(dst, "author_notes.md"))
meta = dict(id=sid, property=prop, origin="independent sub-agent given only the property text and a scratch worktree of /repo", **meta)
json.dump(meta, open(os.path.join(dst, "meta.json"), "w"), indent=1)
print("kept", dst)
