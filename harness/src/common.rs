//! Shared vocabulary of the monitors: element types, planner kinds, entry points, guarded invocation.

use crate::dd::Cdd;
use crate::guard::{GuardBuf, Place};
use crate::refdft::Dir;
use rustfft::num_complex::Complex;
use rustfft::{Fft, FftDirection, FftNum, FftPlanner, FftPlannerAvx, FftPlannerScalar, FftPlannerSse};
use std::panic::{catch_unwind, AssertUnwindSafe};
use std::sync::Arc;

pub type C<T> = Complex<T>;

pub trait Elem: FftNum + PartialOrd + Default {
    const NAME: &'static str;
    const EPS: f64;
    fn to_f64(self) -> f64;
    fn from_f64r(v: f64) -> Self;
    fn bits(self) -> u64;
    fn nan() -> Self;
    fn inf() -> Self;
    fn huge() -> Self;
    fn is_fin(self) -> bool;
}
impl Elem for f32 {
    const NAME: &'static str = "f32";
    const EPS: f64 = f32::EPSILON as f64;
    fn to_f64(self) -> f64 {
        self as f64
    }
    fn from_f64r(v: f64) -> Self {
        v as f32
    }
    fn bits(self) -> u64 {
        self.to_bits() as u64
    }
    fn nan() -> Self {
        f32::NAN
    }
    fn inf() -> Self {
        f32::INFINITY
    }
    fn huge() -> Self {
        1e30
    }
    fn is_fin(self) -> bool {
        self.is_finite()
    }
}
impl Elem for f64 {
    const NAME: &'static str = "f64";
    const EPS: f64 = f64::EPSILON;
    fn to_f64(self) -> f64 {
        self
    }
    fn from_f64r(v: f64) -> Self {
        v
    }
    fn bits(self) -> u64 {
        self.to_bits()
    }
    fn nan() -> Self {
        f64::NAN
    }
    fn inf() -> Self {
        f64::INFINITY
    }
    fn huge() -> Self {
        1e300
    }
    fn is_fin(self) -> bool {
        self.is_finite()
    }
}

/// The bound of property C02: 16 * eps * log2(2n)
pub fn bound_b<T: Elem>(n: usize) -> f64 {
    16.0 * T::EPS * ((2 * n.max(1)) as f64).log2()
}

pub fn fdir(d: Dir) -> FftDirection {
    match d {
        Dir::Fwd => FftDirection::Forward,
        Dir::Inv => FftDirection::Inverse,
    }
}
pub fn dname(d: Dir) -> &'static str {
    match d {
        Dir::Fwd => "fwd",
        Dir::Inv => "inv",
    }
}
pub const DIRS: [Dir; 2] = [Dir::Fwd, Dir::Inv];

// ---------------------------------------------------------------------------------------------
// planners

#[derive(Copy, Clone, PartialEq, Eq, Debug, Hash)]
pub enum PK {
    Auto,
    Scalar,
    Sse,
    Avx,
}
pub const ALL_PK: [PK; 4] = [PK::Auto, PK::Scalar, PK::Sse, PK::Avx];
impl PK {
    pub fn name(self) -> &'static str {
        match self {
            PK::Auto => "auto",
            PK::Scalar => "scalar",
            PK::Sse => "sse",
            PK::Avx => "avx",
        }
    }
    pub fn parse(s: &str) -> Option<PK> {
        ALL_PK.iter().copied().find(|p| p.name() == s)
    }
}

pub enum AnyPlanner<T: FftNum> {
    Auto(FftPlanner<T>),
    Scalar(FftPlannerScalar<T>),
    Sse(FftPlannerSse<T>),
    Avx(FftPlannerAvx<T>),
}

impl<T: FftNum> AnyPlanner<T> {
    /// None if the dedicated SIMD planner declines
    pub fn new(kind: PK) -> Option<Self> {
        match kind {
            PK::Auto => Some(AnyPlanner::Auto(FftPlanner::new())),
            PK::Scalar => Some(AnyPlanner::Scalar(FftPlannerScalar::new())),
            PK::Sse => FftPlannerSse::new().ok().map(AnyPlanner::Sse),
            PK::Avx => FftPlannerAvx::new().ok().map(AnyPlanner::Avx),
        }
    }
    pub fn plan(&mut self, n: usize, dir: Dir) -> Arc<dyn Fft<T>> {
        let d = fdir(dir);
        match self {
            AnyPlanner::Auto(p) => p.plan_fft(n, d),
            AnyPlanner::Scalar(p) => p.plan_fft(n, d),
            AnyPlanner::Sse(p) => p.plan_fft(n, d),
            AnyPlanner::Avx(p) => p.plan_fft(n, d),
        }
    }
    /// through plan_fft_forward / plan_fft_inverse
    pub fn plan_named(&mut self, n: usize, dir: Dir) -> Arc<dyn Fft<T>> {
        match (self, dir) {
            (AnyPlanner::Auto(p), Dir::Fwd) => p.plan_fft_forward(n),
            (AnyPlanner::Auto(p), Dir::Inv) => p.plan_fft_inverse(n),
            (AnyPlanner::Scalar(p), Dir::Fwd) => p.plan_fft_forward(n),
            (AnyPlanner::Scalar(p), Dir::Inv) => p.plan_fft_inverse(n),
            (AnyPlanner::Sse(p), Dir::Fwd) => p.plan_fft_forward(n),
            (AnyPlanner::Sse(p), Dir::Inv) => p.plan_fft_inverse(n),
            (AnyPlanner::Avx(p), Dir::Fwd) => p.plan_fft_forward(n),
            (AnyPlanner::Avx(p), Dir::Inv) => p.plan_fft_inverse(n),
        }
    }
    /// Plan text (hook 2). For Auto the text is prefixed with the chosen planner kind.
    pub fn report(&mut self, n: usize, dir: Dir) -> (String, usize) {
        let d = fdir(dir);
        match self {
            AnyPlanner::Auto(p) => {
                let (k, t, l) = p.verif_plan_report(n, d);
                (format!("{}:{}", k, t), l)
            }
            AnyPlanner::Scalar(p) => p.verif_plan_report(n, d),
            #[cfg(feature = "sse")]
            AnyPlanner::Sse(p) => p.verif_plan_report(n, d),
            #[cfg(feature = "avx")]
            AnyPlanner::Avx(p) => p.verif_plan_report(n, d),
            #[allow(unreachable_patterns)]
            _ => (String::from("stub"), n),
        }
    }
}

/// Algorithm-kind tokens occurring in a plan text (for coverage accounting)
pub fn kinds_in(text: &str) -> Vec<String> {
    let mut v = vec![];
    let mut cur = String::new();
    for ch in text.chars().chain(std::iter::once(' ')) {
        if ch.is_ascii_alphanumeric() || ch == '_' {
            cur.push(ch);
        } else {
            if cur.len() > 2 && cur.chars().next().unwrap().is_ascii_uppercase() {
                let keep = match cur.as_str() {
                    "Factor2" | "Factor3" | "Factor4" | "Factor5" | "Factor6" | "Factor7" => false,
                    "MixedRadixPlan" => false,
                    _ => true,
                };
                if keep && !v.contains(&cur) {
                    v.push(cur.clone());
                }
            }
            cur.clear();
        }
    }
    v
}

// ---------------------------------------------------------------------------------------------
// entry points

#[derive(Copy, Clone, PartialEq, Eq, Debug, Hash)]
pub enum Entry {
    Process,
    Inplace,
    OutOfPlace,
    Immut,
}
pub const ALL_ENTRIES: [Entry; 4] = [Entry::Process, Entry::Inplace, Entry::OutOfPlace, Entry::Immut];
pub const SCRATCH_ENTRIES: [Entry; 3] = [Entry::Inplace, Entry::OutOfPlace, Entry::Immut];
impl Entry {
    pub fn name(self) -> &'static str {
        match self {
            Entry::Process => "process",
            Entry::Inplace => "inplace",
            Entry::OutOfPlace => "outofplace",
            Entry::Immut => "immut",
        }
    }
    pub fn parse(s: &str) -> Option<Entry> {
        ALL_ENTRIES.iter().copied().find(|p| p.name() == s)
    }
    pub fn adv_scratch<T: FftNum>(self, fft: &dyn Fft<T>) -> usize {
        match self {
            Entry::Process => 0,
            Entry::Inplace => fft.get_inplace_scratch_len(),
            Entry::OutOfPlace => fft.get_outofplace_scratch_len(),
            Entry::Immut => fft.get_immutable_scratch_len(),
        }
    }
}

#[derive(Clone, Debug)]
pub struct CallShape<T: Copy> {
    pub entry: Entry,
    /// length of the output buffer for the two-buffer entries (ignored otherwise)
    pub out_len: usize,
    pub scratch_len: usize,
    pub scratch_fill: C<T>,
    pub out_fill: C<T>,
    pub place: Place,
    /// additionally make the input read-only (only meaningful for Entry::Immut)
    pub protect_input: bool,
}

pub struct CallResult<T> {
    /// Ok(()) if the call returned, Err(msg) if it panicked
    pub outcome: Result<(), String>,
    /// the buffer that holds the result (data buffer for in-place entries, output buffer otherwise)
    pub result: Vec<C<T>>,
    /// the input buffer after the call (for the two-buffer entries)
    pub input_after: Vec<C<T>>,
    pub guarded_bytes: usize,
}

pub fn panic_message(e: Box<dyn std::any::Any + Send>) -> String {
    if let Some(s) = e.downcast_ref::<&str>() {
        s.to_string()
    } else if let Some(s) = e.downcast_ref::<String>() {
        s.clone()
    } else {
        "<non-string panic>".to_string()
    }
}

/// One call through a public entry point, every buffer a GuardBuf of exactly the stated length.
pub fn invoke<T: FftNum>(fft: &dyn Fft<T>, input: &[C<T>], shape: &CallShape<T>) -> CallResult<T> {
    let mut data = GuardBuf::from_slice(input, shape.place);
    let mut guarded = data.guarded_bytes();
    match shape.entry {
        Entry::Process => {
            let outcome = catch_unwind(AssertUnwindSafe(|| fft.process(data.as_mut_slice())))
                .map_err(panic_message);
            CallResult {
                outcome,
                result: data.as_slice().to_vec(),
                input_after: vec![],
                guarded_bytes: guarded,
            }
        }
        Entry::Inplace => {
            let mut scratch = GuardBuf::new(shape.scratch_len, shape.place, shape.scratch_fill);
            guarded += scratch.guarded_bytes();
            let outcome = catch_unwind(AssertUnwindSafe(|| {
                fft.process_with_scratch(data.as_mut_slice(), scratch.as_mut_slice())
            }))
            .map_err(panic_message);
            CallResult {
                outcome,
                result: data.as_slice().to_vec(),
                input_after: vec![],
                guarded_bytes: guarded,
            }
        }
        Entry::OutOfPlace => {
            let mut scratch = GuardBuf::new(shape.scratch_len, shape.place, shape.scratch_fill);
            let mut out = GuardBuf::new(shape.out_len, shape.place, shape.out_fill);
            guarded += scratch.guarded_bytes() + out.guarded_bytes();
            let outcome = catch_unwind(AssertUnwindSafe(|| {
                fft.process_outofplace_with_scratch(
                    data.as_mut_slice(),
                    out.as_mut_slice(),
                    scratch.as_mut_slice(),
                )
            }))
            .map_err(panic_message);
            CallResult {
                outcome,
                result: out.as_slice().to_vec(),
                input_after: data.as_slice().to_vec(),
                guarded_bytes: guarded,
            }
        }
        Entry::Immut => {
            let mut scratch = GuardBuf::new(shape.scratch_len, shape.place, shape.scratch_fill);
            let mut out = GuardBuf::new(shape.out_len, shape.place, shape.out_fill);
            guarded += scratch.guarded_bytes() + out.guarded_bytes();
            if shape.protect_input {
                data.protect_readonly();
            }
            let outcome = catch_unwind(AssertUnwindSafe(|| {
                fft.process_immutable_with_scratch(
                    data.as_slice(),
                    out.as_mut_slice(),
                    scratch.as_mut_slice(),
                )
            }))
            .map_err(panic_message);
            if shape.protect_input {
                data.unprotect();
            }
            CallResult {
                outcome,
                result: out.as_slice().to_vec(),
                input_after: data.as_slice().to_vec(),
                guarded_bytes: guarded,
            }
        }
    }
}

/// Well-shaped call with zeroed exact-size scratch/out, trailing guard
pub fn plain_shape<T: FftNum>(fft: &dyn Fft<T>, entry: Entry, data_len: usize) -> CallShape<T> {
    let z = C::<T>::new(T::zero(), T::zero());
    CallShape {
        entry,
        out_len: data_len,
        scratch_len: entry.adv_scratch(fft),
        scratch_fill: z,
        out_fill: z,
        place: Place::Tail,
        protect_input: false,
    }
}

// ---------------------------------------------------------------------------------------------
// numeric helpers

pub fn widen<T: Elem>(x: &[C<T>]) -> Vec<Cdd> {
    x.iter()
        .map(|c| Cdd::from_f64(c.re.to_f64(), c.im.to_f64()))
        .collect()
}

pub fn bits_of<T: Elem>(x: &[C<T>]) -> Vec<(u64, u64)> {
    x.iter().map(|c| (c.re.bits(), c.im.bits())).collect()
}

pub fn bits_equal<T: Elem>(a: &[C<T>], b: &[C<T>]) -> bool {
    a.len() == b.len()
        && a.iter()
            .zip(b.iter())
            .all(|(x, y)| x.re.bits() == y.re.bits() && x.im.bits() == y.im.bits())
}

pub fn all_finite<T: Elem>(a: &[C<T>]) -> bool {
    a.iter().all(|c| c.re.is_fin() && c.im.is_fin())
}

#[derive(Copy, Clone, Debug, Default)]
pub struct ErrStats {
    /// ||got - ref||_2 / ||ref||_2
    pub rel_l2: f64,
    /// max_k |got[k] - ref[k]|
    pub max_abs: f64,
    pub worst_k: usize,
    pub ref_norm: f64,
    pub finite: bool,
}

pub fn compare<T: Elem>(got: &[C<T>], reference: &[Cdd]) -> ErrStats {
    assert_eq!(got.len(), reference.len());
    let mut num = 0.0f64;
    let mut den = 0.0f64;
    let mut max_abs = 0.0f64;
    let mut worst_k = 0usize;
    let mut finite = true;
    for (k, (g, r)) in got.iter().zip(reference.iter()).enumerate() {
        if !(g.re.is_fin() && g.im.is_fin()) {
            finite = false;
        }
        // got is an f64 (exactly); when it is close to the reference the first subtraction is exact (Sterbenz),
        // so this is the double-double difference at the cost of two flops
        let dr = (g.re.to_f64() - r.re.hi) - r.re.lo;
        let di = (g.im.to_f64() - r.im.hi) - r.im.lo;
        let e2 = dr * dr + di * di;
        num += e2;
        den += r.re.hi * r.re.hi + r.im.hi * r.im.hi;
        if e2 > max_abs || e2.is_nan() {
            max_abs = e2;
            worst_k = k;
        }
    }
    let max_abs = max_abs.sqrt();
    let ref_norm = den.sqrt();
    let rel_l2 = if den > 0.0 {
        (num / den).sqrt()
    } else if num == 0.0 {
        0.0
    } else {
        f64::INFINITY
    };
    ErrStats {
        rel_l2: if finite { rel_l2 } else { f64::INFINITY },
        max_abs: if finite { max_abs } else { f64::INFINITY },
        worst_k,
        ref_norm,
        finite,
    }
}

pub fn l1_norm<T: Elem>(x: &[C<T>]) -> f64 {
    x.iter()
        .map(|c| {
            let r = c.re.to_f64();
            let i = c.im.to_f64();
            (r * r + i * i).sqrt()
        })
        .sum()
}
pub fn l2_norm<T: Elem>(x: &[C<T>]) -> f64 {
    x.iter()
        .map(|c| {
            let r = c.re.to_f64();
            let i = c.im.to_f64();
            r * r + i * i
        })
        .sum::<f64>()
        .sqrt()
}

/// Tracks the worst observed ratio measured/allowed and where it occurred
#[derive(Clone, Debug, Default)]
pub struct Worst {
    pub ratio: f64,
    pub at: String,
}
impl Worst {
    pub fn see(&mut self, ratio: f64, at: impl FnOnce() -> String) {
        if ratio > self.ratio || (ratio.is_nan() && !self.ratio.is_nan()) {
            self.ratio = ratio;
            self.at = at();
        }
    }
}
