//! Monitor C11: one shared `Arc<dyn Fft>` called concurrently from many threads on disjoint buffers, and repeatedly over
//! time, must return bit-for-bit what a single isolated call returns. Run natively (16 threads), under ThreadSanitizer
//! (data-race reports) and under Miri (data-race detector, many scheduler seeds).

use crate::common::*;
use crate::guard::Place;
use crate::inputs::{self, InClass};
use crate::out::J;
use crate::refdft::Dir;
use crate::rng::{mix, Rng};
use crate::stats::Stats;
use crate::Args;
use rustfft::{Fft, FftPlanner, FftPlannerAvx, FftPlannerScalar, FftPlannerSse};
use std::sync::{Arc, Barrier};
use std::time::Instant;

fn assert_send_sync<X: Send + Sync>() {}
fn assert_send_sync_unsized<X: Send + Sync + ?Sized>() {}

/// Compile-time obligations of C11's last sentence: a regression here makes the harness fail to build
/// (reported by the driver as inconclusive `harness-build`).
#[allow(dead_code)]
fn auto_trait_obligations() {
    assert_send_sync::<FftPlanner<f32>>();
    assert_send_sync::<FftPlanner<f64>>();
    assert_send_sync::<FftPlannerScalar<f32>>();
    assert_send_sync::<FftPlannerScalar<f64>>();
    assert_send_sync::<FftPlannerSse<f32>>();
    assert_send_sync::<FftPlannerSse<f64>>();
    assert_send_sync::<FftPlannerAvx<f32>>();
    assert_send_sync::<FftPlannerAvx<f64>>();
    assert_send_sync_unsized::<dyn Fft<f32>>();
    assert_send_sync_unsized::<dyn Fft<f64>>();
    assert_send_sync::<Arc<dyn Fft<f32>>>();
    assert_send_sync::<Arc<dyn Fft<f64>>>();
}

struct Job<T> {
    entry: Entry,
    k: usize,
    input: Vec<C<T>>,
    expected: Vec<C<T>>,
}

/// Per-thread buffers that live across rounds: the scratch is never cleared between calls (realistic reuse), so any
/// dependence of the output bits on what an earlier call left in the scratch shows up as a mismatch.
struct Persistent<T> {
    data: Vec<C<T>>,
    out: Vec<C<T>>,
    scratch: Vec<C<T>>,
}
impl<T: Elem> Persistent<T> {
    fn new(fft: &dyn Fft<T>, job: &Job<T>, poison: bool) -> Self {
        let fill = if poison { C::new(T::nan(), T::nan()) } else { C::new(T::from_f64r(0.0), T::from_f64r(0.0)) };
        let adv = job.entry.adv_scratch(fft);
        Persistent { data: job.input.clone(), out: vec![fill; job.input.len()], scratch: vec![fill; adv + 3] }
    }
    /// returns Err(panic message) or Ok(()) with the result in `data` (in-place entries) or `out`
    fn call(&mut self, fft: &dyn Fft<T>, job: &Job<T>) -> Result<bool, String> {
        self.data.copy_from_slice(&job.input);
        let (data, out, scratch) = (&mut self.data, &mut self.out, &mut self.scratch);
        let r = std::panic::catch_unwind(std::panic::AssertUnwindSafe(|| match job.entry {
            Entry::Process => fft.process(data),
            Entry::Inplace => fft.process_with_scratch(data, scratch),
            Entry::OutOfPlace => fft.process_outofplace_with_scratch(data, out, scratch),
            Entry::Immut => fft.process_immutable_with_scratch(data, out, scratch),
        }));
        match r {
            Err(e) => Err(panic_message(e)),
            Ok(()) => {
                let res = match job.entry {
                    Entry::Process | Entry::Inplace => &self.data,
                    _ => &self.out,
                };
                Ok(bits_equal(res, &job.expected))
            }
        }
    }
}

fn run_call<T: Elem>(fft: &dyn Fft<T>, job: &Job<T>, place: Place) -> CallResult<T> {
    let mut shape = plain_shape(fft, job.entry, job.input.len());
    shape.place = place;
    invoke(fft, &job.input, &shape)
}

/// Transform instances obtained through the public constructors (they are `Fft` instances like any other)
pub fn constructed<T: Elem>(kind: usize, n: usize, dir: Dir, planner: &mut AnyPlanner<T>) -> (String, Arc<dyn Fft<T>>) {
    use rustfft::algorithm::*;
    let d = fdir(dir);
    let n = n.max(2);
    match kind % 6 {
        0 => {
            // Bluestein with a generous inner length (>= 3*len), the documented "any inner length >= 2*len-1" freedom
            let len = n.min(1500);
            let m = (3 * len).next_power_of_two();
            (format!("BluesteinsAlgorithm({},planned({}))", len, m), Arc::new(BluesteinsAlgorithm::new(len, planner.plan(m, dir))))
        }
        1 => {
            let mut p = n.max(3);
            while !crate::cases::is_prime(p) {
                p += 1;
            }
            (format!("RadersAlgorithm(planned({}))", p - 1), Arc::new(RadersAlgorithm::new(planner.plan(p - 1, dir))))
        }
        2 => {
            let a = 2 + n % 29;
            let b = (n / a).max(2);
            (format!("MixedRadix(planned({}),planned({}))", a, b), Arc::new(MixedRadix::new(planner.plan(a, dir), planner.plan(b, dir))))
        }
        3 => {
            let a = 7 + 2 * (n % 5);
            let mut b = (n / a).max(2);
            while crate::trees_gcd(a, b) != 1 {
                b += 1;
            }
            (format!("GoodThomasAlgorithm(planned({}),planned({}))", a, b), Arc::new(GoodThomasAlgorithm::new(planner.plan(a, dir), planner.plan(b, dir))))
        }
        4 => {
            let len = n.next_power_of_two().min(4096);
            (format!("Radix4::new({})", len), Arc::new(Radix4::new(len, d)))
        }
        _ => {
            let len = 2 + n % 60;
            (format!("Dft({})", len), Arc::new(Dft::new(len, d)))
        }
    }
}

#[allow(clippy::too_many_arguments)]
fn stress_instance<T: Elem>(st: &mut Stats, pk: PK, n: usize, dir: Dir, threads: usize, rounds: usize, seed: u64, light: bool, ctor_kind: Option<usize>) {
    // the planner is moved into another thread and used there (Send), the transform comes back and is shared (Sync)
    let planner = match AnyPlanner::<T>::new(pk) {
        Some(p) => p,
        None => return,
    };
    let make = move || {
        let mut planner = AnyPlanner::<T>::new(pk).unwrap();
        match ctor_kind {
            None => (format!("n={}", n), planner.plan(n, dir)),
            Some(k) => {
                let (text, f) = constructed::<T>(k, n, dir, &mut planner);
                (format!("ctor={}", text), f)
            }
        }
    };
    drop(planner);
    // `fft` is the shared instance: it is NOT called before the threads start, so that their first calls on it are
    // concurrent (lazily initialised state would be raced). The sequential references come from `twin`, an identical
    // instance built by a second fresh planner in another thread (C10: twin planners give bit-identical transforms).
    let (label, fft): (String, Arc<dyn Fft<T>>) = std::thread::spawn(make).join().unwrap();
    let (_, twin): (String, Arc<dyn Fft<T>>) = std::thread::spawn(make).join().unwrap();
    let n = fft.len();
    let case_base = format!("planner={} type={} dir={} {} threads={} rounds={}", pk.name(), T::NAME, dname(dir), label, threads, rounds);
    crate::guard::set_case(&format!("C11 {}", case_base));
    let per_thread = if light { 2 } else { 4 };
    // sequential references, computed before any concurrency
    let mut jobs: Vec<Vec<Job<T>>> = vec![];
    for t in 0..threads {
        let mut v = vec![];
        for i in 0..per_thread {
            let mut rng = Rng::new(mix(&[seed, n as u64, t as u64, i as u64, pk as u64]));
            let entry = ALL_ENTRIES[(t + i) % 4];
            let k = if light { 1 + (t + i) % 2 } else { 1 + (t * 3 + i) % 3 };
            let input = inputs::gen::<T>(if i % 2 == 0 { InClass::Uniform } else { InClass::Gauss }, k * n, &mut rng);
            let mut job = Job { entry, k, input, expected: vec![] };
            let r = run_call(&*twin, &job, Place::Tail);
            if r.outcome.is_err() {
                st.violation("C11", "c11", &case_base, vec![("what", J::s("isolated reference call panicked"))]);
                return;
            }
            job.expected = r.result;
            v.push(job);
        }
        jobs.push(v);
    }
    let jobs = Arc::new(jobs);
    let barrier = Arc::new(Barrier::new(threads));
    let t0 = Instant::now();
    let mut handles = vec![];
    for t in 0..threads {
        let fft = Arc::clone(&fft);
        let jobs = Arc::clone(&jobs);
        let barrier = Arc::clone(&barrier);
        handles.push(std::thread::spawn(move || {
            let mut rng = Rng::new(mix(&[seed, t as u64, 0x7173]));
            let mut intervals: Vec<(u64, u64)> = Vec::with_capacity(rounds);
            let mut mismatches: Vec<String> = vec![];
            let mut calls = 0usize;
            let mut persistent: Vec<Persistent<T>> = jobs[t].iter().map(|j| Persistent::new(&*fft, j, t % 2 == 1)).collect();
            barrier.wait();
            for r in 0..rounds {
                // seed-derived jitter staggers the threads differently in every round
                let spins = rng.below(400);
                for _ in 0..spins {
                    std::hint::spin_loop();
                }
                let ji = r % jobs[t].len();
                let job = &jobs[t][ji];
                let a = t0.elapsed().as_nanos() as u64;
                // most rounds reuse this thread's own (dirty) buffers; every 8th goes through fresh guard-paged buffers
                let verdict: Result<bool, String> = if r % 8 == 7 {
                    let res = run_call(&*fft, job, if r % 16 == 7 { Place::Tail } else { Place::Head });
                    match res.outcome {
                        Err(m) => Err(m),
                        Ok(()) => Ok(bits_equal(&res.result, &job.expected)),
                    }
                } else {
                    persistent[ji].call(&*fft, job)
                };
                let b = t0.elapsed().as_nanos() as u64;
                intervals.push((a, b));
                calls += 1;
                match verdict {
                    Err(m) => mismatches.push(format!("thread={} round={} entry={} k={}: call panicked: {}", t, r, job.entry.name(), job.k, m)),
                    Ok(false) => mismatches.push(format!("thread={} round={} entry={} k={} reused_scratch={}: output bits differ from the isolated call", t, r, job.entry.name(), job.k, r % 8 != 7)),
                    Ok(true) => {}
                }
            }
            (intervals, mismatches, calls)
        }));
    }
    let mut all_intervals: Vec<(u64, u64, usize)> = vec![];
    let mut calls = 0;
    for (t, h) in handles.into_iter().enumerate() {
        let (iv, mm, c) = h.join().unwrap();
        calls += c;
        for (a, b) in iv {
            all_intervals.push((a, b, t));
        }
        for m in mm.iter().take(3) {
            st.violation("C11", "c11", &format!("{} {}", case_base, m), vec![("what", J::s("concurrent/repeated call disagrees with the isolated sequential reference"))]);
        }
    }
    st.add("evaluations", calls);
    st.add("concurrent_calls", calls);
    st.inc("instances_stressed");
    // how many calls overlapped in time with a call of another thread on the same instance
    all_intervals.sort();
    let mut overlapping = 0usize;
    let mut active: Vec<(u64, usize)> = vec![]; // (end, thread)
    for &(a, b, t) in &all_intervals {
        active.retain(|&(e, _)| e > a);
        if active.iter().any(|&(_, tt)| tt != t) {
            overlapping += 1;
        }
        active.push((b, t));
    }
    st.add("calls_overlapping_another_threads_call", overlapping);
    // history: the same inputs once more, sequentially, after all those calls
    for t in 0..threads.min(4) {
        for job in &jobs[t] {
            let r = run_call(&*fft, job, Place::Tail);
            st.inc("evaluations");
            st.inc("replayed_after_history");
            if r.outcome.is_err() || !bits_equal(&r.result, &job.expected) {
                st.violation("C11", "c11", &format!("{} replay thread={} entry={}", case_base, t, job.entry.name()), vec![
                    ("what", J::s("the same input gave different bits after a history of other calls on the instance"))]);
            }
        }
    }
    st.set_distinct(&format!("{}|{}|{}|{}", pk.name(), T::NAME, dname(dir), label));
    if ctor_kind.is_some() {
        st.inc("constructed_instances_stressed");
    }
    if n >= 16 {
        st.sample(3, || J::obj(vec![("case", J::s(&case_base)), ("calls", J::u(calls)), ("overlapping_calls", J::u(overlapping))]));
    }
}

pub fn run(args: &Args) {
    let t = args.tier_thorough;
    let mut st = Stats::new();
    let light = args.flag("light");
    let threads = args.get_usize("threads").unwrap_or(if light { 4 } else { 16 });
    let rounds = args.get_usize("rounds").unwrap_or(if light { 3 } else if t { 2000 } else { 200 });
    let n_instances = args.get_usize("instances").unwrap_or(if t { 400 } else { 60 });
    // instance list: lengths across algorithm kinds (butterflies, radix chains, Rader, Bluestein, mixed)
    let base_lengths: Vec<usize> = match args.get("ns") {
        Some(ns) => ns.split(',').filter_map(|s| s.parse().ok()).collect(),
        None => vec![
            8, 37, 59, 96, 64, 100, 127, 128, 243, 256, 289, 360, 509, 512, 577, 1000, 1009, 1024, 1152, 1201, 2048, 2187, 3000, 4096, 4099, 5040,
            16, 17, 24, 31, 32, 36, 48, 54, 72, 118, 121, 144, 192, 251, 288, 384, 625, 768, 1536, 1153, 2310, 6561, 8192, 10007,
        ],
    };
    let mut rng = Rng::new(mix(&[args.seed, 0xC11]));
    let mut instances: Vec<(PK, bool, usize, Dir)> = vec![]; // (planner, is_f64, n, dir)
    let mut i = 0usize;
    while instances.len() < n_instances {
        let n = if i < base_lengths.len() * 2 { base_lengths[i % base_lengths.len()] } else { rng.range(2, 6000) };
        let pk = ALL_PK[(i + i / 4) % 4];
        let is64 = (i / 2) % 2 == 0;
        let dir = if i % 3 == 0 { Dir::Inv } else { Dir::Fwd };
        instances.push((pk, is64, n, dir));
        i += 1;
    }
    if let Some(n) = args.get_usize("only-n") {
        instances = vec![];
        for pk in ALL_PK {
            instances.push((pk, true, n, Dir::Fwd));
            instances.push((pk, false, n, Dir::Inv));
        }
    }
    for (idx, (pk, is64, n, dir)) in instances.iter().enumerate() {
        if args.get("only-n").is_none() && !crate::cases::mine(idx, args.shard) {
            continue;
        }
        // every fourth instance is assembled from the public constructors instead of being planned
        let ctor = if idx % 4 == 3 && args.get("only-n").is_none() { Some(idx / 4) } else { None };
        if *is64 {
            stress_instance::<f64>(&mut st, *pk, *n, *dir, threads, rounds, args.seed, light, ctor);
        } else {
            stress_instance::<f32>(&mut st, *pk, *n, *dir, threads, rounds, args.seed, light, ctor);
        }
    }
    st.max("max_threads", threads);
    st.emit_summary();
}
