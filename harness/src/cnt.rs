//! Operation-counting element type `Cnt` (C05) and a double-double element type `DD16` (C14).
//! Both satisfy RustFFT's public numeric bound and are neither f32 nor f64, so every SIMD planner must decline them.

use crate::dd::DD;
use rustfft::num_traits::{FromPrimitive, Num, One, Signed, ToPrimitive, Zero};
use std::cell::Cell;
use std::ops::{Add, Div, Mul, Neg, Rem, Sub};

thread_local! {
    pub static ADDS: Cell<u64> = Cell::new(0);
    pub static SUBS: Cell<u64> = Cell::new(0);
    pub static MULS: Cell<u64> = Cell::new(0);
    pub static NEGS: Cell<u64> = Cell::new(0);
    pub static DIVS: Cell<u64> = Cell::new(0);
    pub static OTHER: Cell<u64> = Cell::new(0);
}
pub fn reset_counts() {
    ADDS.with(|c| c.set(0));
    SUBS.with(|c| c.set(0));
    MULS.with(|c| c.set(0));
    NEGS.with(|c| c.set(0));
    DIVS.with(|c| c.set(0));
    OTHER.with(|c| c.set(0));
}
/// (adds, subs, muls, negs, divs, other)
pub fn counts() -> (u64, u64, u64, u64, u64, u64) {
    (
        ADDS.with(|c| c.get()),
        SUBS.with(|c| c.get()),
        MULS.with(|c| c.get()),
        NEGS.with(|c| c.get()),
        DIVS.with(|c| c.get()),
        OTHER.with(|c| c.get()),
    )
}
#[inline(always)]
fn bump(c: &'static std::thread::LocalKey<Cell<u64>>) {
    c.with(|x| x.set(x.get() + 1));
}

#[derive(Copy, Clone, PartialEq, PartialOrd, Debug, Default)]
pub struct Cnt(pub f64);

impl Add for Cnt {
    type Output = Cnt;
    #[inline(always)]
    fn add(self, b: Cnt) -> Cnt {
        bump(&ADDS);
        Cnt(self.0 + b.0)
    }
}
impl Sub for Cnt {
    type Output = Cnt;
    #[inline(always)]
    fn sub(self, b: Cnt) -> Cnt {
        bump(&SUBS);
        Cnt(self.0 - b.0)
    }
}
impl Mul for Cnt {
    type Output = Cnt;
    #[inline(always)]
    fn mul(self, b: Cnt) -> Cnt {
        bump(&MULS);
        Cnt(self.0 * b.0)
    }
}
impl Div for Cnt {
    type Output = Cnt;
    fn div(self, b: Cnt) -> Cnt {
        bump(&DIVS);
        Cnt(self.0 / b.0)
    }
}
impl Rem for Cnt {
    type Output = Cnt;
    fn rem(self, b: Cnt) -> Cnt {
        bump(&OTHER);
        Cnt(self.0 % b.0)
    }
}
impl Neg for Cnt {
    type Output = Cnt;
    #[inline(always)]
    fn neg(self) -> Cnt {
        bump(&NEGS);
        Cnt(-self.0)
    }
}
impl Zero for Cnt {
    fn zero() -> Cnt {
        Cnt(0.0)
    }
    fn is_zero(&self) -> bool {
        self.0 == 0.0
    }
}
impl One for Cnt {
    fn one() -> Cnt {
        Cnt(1.0)
    }
}
impl Num for Cnt {
    type FromStrRadixErr = ();
    fn from_str_radix(_s: &str, _r: u32) -> Result<Cnt, ()> {
        Err(())
    }
}
impl Signed for Cnt {
    fn abs(&self) -> Cnt {
        bump(&OTHER);
        Cnt(self.0.abs())
    }
    fn abs_sub(&self, o: &Cnt) -> Cnt {
        bump(&OTHER);
        Cnt((self.0 - o.0).max(0.0))
    }
    fn signum(&self) -> Cnt {
        bump(&OTHER);
        Cnt(self.0.signum())
    }
    fn is_positive(&self) -> bool {
        bump(&OTHER);
        self.0 > 0.0
    }
    fn is_negative(&self) -> bool {
        bump(&OTHER);
        self.0 < 0.0
    }
}
impl ToPrimitive for Cnt {
    fn to_i64(&self) -> Option<i64> {
        Some(self.0 as i64)
    }
    fn to_u64(&self) -> Option<u64> {
        Some(self.0 as u64)
    }
    fn to_f64(&self) -> Option<f64> {
        Some(self.0)
    }
}
impl FromPrimitive for Cnt {
    fn from_i64(n: i64) -> Option<Cnt> {
        Some(Cnt(n as f64))
    }
    fn from_u64(n: u64) -> Option<Cnt> {
        Some(Cnt(n as f64))
    }
    fn from_f64(v: f64) -> Option<Cnt> {
        Some(Cnt(v))
    }
    fn from_f32(v: f32) -> Option<Cnt> {
        Some(Cnt(v as f64))
    }
}

// ---------------------------------------------------------------------------------------------
// DD16: a 16-byte double-double element type (more precise than f64)

#[derive(Copy, Clone, PartialEq, Debug, Default)]
pub struct DD16(pub DD);

impl Add for DD16 {
    type Output = DD16;
    fn add(self, b: DD16) -> DD16 {
        DD16(self.0 + b.0)
    }
}
impl Sub for DD16 {
    type Output = DD16;
    fn sub(self, b: DD16) -> DD16 {
        DD16(self.0 - b.0)
    }
}
impl Mul for DD16 {
    type Output = DD16;
    fn mul(self, b: DD16) -> DD16 {
        DD16(self.0 * b.0)
    }
}
impl Div for DD16 {
    type Output = DD16;
    fn div(self, b: DD16) -> DD16 {
        DD16(self.0.div(b.0))
    }
}
impl Rem for DD16 {
    type Output = DD16;
    fn rem(self, _b: DD16) -> DD16 {
        panic!("DD16: rem is not a ring operation")
    }
}
impl Neg for DD16 {
    type Output = DD16;
    fn neg(self) -> DD16 {
        DD16(-self.0)
    }
}
impl Zero for DD16 {
    fn zero() -> DD16 {
        DD16(DD::ZERO)
    }
    fn is_zero(&self) -> bool {
        self.0.hi == 0.0 && self.0.lo == 0.0
    }
}
impl One for DD16 {
    fn one() -> DD16 {
        DD16(DD::ONE)
    }
}
impl Num for DD16 {
    type FromStrRadixErr = ();
    fn from_str_radix(_s: &str, _r: u32) -> Result<DD16, ()> {
        Err(())
    }
}
impl Signed for DD16 {
    fn abs(&self) -> DD16 {
        DD16(self.0.abs())
    }
    fn abs_sub(&self, o: &DD16) -> DD16 {
        let d = self.0 - o.0;
        if d.hi > 0.0 {
            DD16(d)
        } else {
            DD16(DD::ZERO)
        }
    }
    fn signum(&self) -> DD16 {
        DD16(DD::from_f64(self.0.hi.signum()))
    }
    fn is_positive(&self) -> bool {
        self.0.hi > 0.0
    }
    fn is_negative(&self) -> bool {
        self.0.hi < 0.0
    }
}
impl ToPrimitive for DD16 {
    fn to_i64(&self) -> Option<i64> {
        Some(self.0.hi as i64)
    }
    fn to_u64(&self) -> Option<u64> {
        Some(self.0.hi as u64)
    }
    fn to_f64(&self) -> Option<f64> {
        Some(self.0.to_f64())
    }
}
impl FromPrimitive for DD16 {
    fn from_i64(n: i64) -> Option<DD16> {
        Some(DD16(DD::from_f64(n as f64)))
    }
    fn from_u64(n: u64) -> Option<DD16> {
        Some(DD16(DD::from_f64(n as f64)))
    }
    fn from_f64(v: f64) -> Option<DD16> {
        Some(DD16(DD::from_f64(v)))
    }
    fn from_f32(v: f32) -> Option<DD16> {
        Some(DD16(DD::from_f64(v as f64)))
    }
}
