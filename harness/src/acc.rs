//! Monitor `acc` (C01, C02, and the numerical half of C13): every planned FFT against the double-double reference.
//!
//! For each length n in this shard: inputs (impulses + dense classes) are generated in the element type, the reference
//! is computed once per (input, direction) and every (planner, direction, entry point) is run on guard-paged buffers
//! and compared.
//!   C01: rel L2 <= 4B(n)  and  max_k |err_k| <= 4B(n) * ||x||_1     (B(n) = 16 eps log2(2n))
//!   C02: rel L2 <= B(n)

use crate::cases;
use crate::common::*;
use crate::dd::Cdd;
use crate::inputs::{self, InClass};
use crate::out::J;
use crate::refdft::{impulse_dft, RefFft};
use crate::rng::{mix, Rng};
use crate::stats::Stats;
use crate::Args;

pub struct Cfg {
    pub prop: String,
    pub l2_factor: f64,
    pub elem_factor: f64,
    pub elementwise: bool,
    pub dense_max: usize,
    /// lengths in (dense_max, impulse_max] are swept with unit impulses only (O(n) reference), one entry point each
    pub impulse_max: usize,
    pub struct_max: usize,
    pub struct_count: usize,
    pub basis_max: usize,
    pub n_impulses: usize,
    pub classes_small: Vec<InClass>,
    pub planners: Vec<PK>,
    pub entries: Vec<Entry>,
}

fn cfg_for(args: &Args) -> Cfg {
    let prop = args.get("prop").unwrap_or("C01").to_string();
    let t = args.tier_thorough;
    let mut c = match prop.as_str() {
        "C02" => Cfg {
            prop: prop.clone(),
            l2_factor: 1.0,
            elem_factor: 4.0,
            elementwise: false,
            dense_max: if t { 3072 } else { 1536 },
            impulse_max: if t { 20000 } else { 8192 },
            struct_max: if t { 1 << 19 } else { 1 << 17 },
            struct_count: if t { 250 } else { 120 },
            basis_max: if t { 256 } else { 64 },
            n_impulses: 6,
            classes_small: inputs::DENSE_CLASSES.to_vec(),
            planners: ALL_PK.to_vec(),
            entries: ALL_ENTRIES.to_vec(),
        },
        _ => Cfg {
            prop: prop.clone(),
            l2_factor: 4.0,
            elem_factor: 4.0,
            elementwise: true,
            dense_max: if t { 3072 } else { 1536 },
            impulse_max: if t { 20000 } else { 8192 },
            struct_max: if t { 1 << 19 } else { 1 << 17 },
            struct_count: if t { 250 } else { 120 },
            basis_max: if t { 512 } else { 128 },
            n_impulses: 16,
            classes_small: if t {
                inputs::DENSE_CLASSES.to_vec()
            } else {
                vec![InClass::Uniform, InClass::Positive, InClass::Sparse]
            },
            planners: ALL_PK.to_vec(),
            entries: ALL_ENTRIES.to_vec(),
        },
    };
    if prop == "C13" {
        c.l2_factor = 1.0;
        c.elementwise = true;
        c.dense_max = if t { 512 } else { 192 };
        c.struct_max = 1 << 16;
        c.struct_count = if t { 60 } else { 12 };
        c.basis_max = if t { 256 } else { 48 };
        c.n_impulses = 8;
        c.classes_small = vec![InClass::Uniform, InClass::Positive, InClass::Sparse, InClass::WideRange];
    }
    if let Some(v) = args.get_usize("dense-max") {
        c.dense_max = v;
    }
    if prop == "C13" {
        c.impulse_max = 0;
    }
    if let Some(v) = args.get_usize("impulse-max") {
        c.impulse_max = v;
    }
    if let Some(v) = args.get_usize("struct-max") {
        c.struct_max = v;
    }
    if let Some(v) = args.get_usize("struct-count") {
        c.struct_count = v;
    }
    if let Some(v) = args.get_usize("basis-max") {
        c.basis_max = v;
    }
    if let Some(p) = args.get("planners") {
        c.planners = p.split(',').filter_map(PK::parse).collect();
    }
    c
}

pub fn length_list(cfg: &Cfg, seed: u64) -> Vec<usize> {
    let mut v: Vec<usize> = (0..=cfg.dense_max.max(cfg.impulse_max)).collect();
    let s: Vec<usize> = cases::structured(cfg.struct_max)
        .into_iter()
        .filter(|n| *n > cfg.dense_max.max(cfg.impulse_max))
        .collect();
    let mut rng = Rng::new(mix(&[seed, 0x5712]));
    v.extend(cases::subsample(&s, cfg.struct_count, &mut rng));
    v
}

struct Input<T> {
    label: String,
    data: Vec<C<T>>,
    impulse: Option<usize>,
    l1: f64,
}

fn make_inputs<T: Elem>(cfg: &Cfg, n: usize, rng: &mut Rng) -> Vec<Input<T>> {
    let mut v = vec![];
    if n == 0 {
        return v;
    }
    let impulse_only = n > cfg.dense_max && n <= cfg.impulse_max;
    let mut js: Vec<usize> = if impulse_only {
        vec![0, 1, n / 2, n - 1, rng.range(0, n - 1), rng.range(0, n - 1)]
    } else if n <= cfg.basis_max {
        (0..n).collect()
    } else {
        let mut js = vec![0, 1, n / 2, n - 1];
        let extra = if n > (1 << 17) { 2 } else { cfg.n_impulses.saturating_sub(4) };
        for _ in 0..extra {
            js.push(rng.range(0, n - 1));
        }
        js
    };
    js.sort();
    js.dedup();
    for j in js {
        v.push(Input {
            label: format!("impulse{}", j),
            data: inputs::impulse::<T>(n, j),
            impulse: Some(j),
            l1: 1.0,
        });
    }
    let classes: Vec<InClass> = if impulse_only {
        // a constant vector has the closed-form DFT (n*c, 0, 0, ...): a dense, DC-heavy input at O(n) reference cost
        vec![InClass::Constant]
    } else if n > (1 << 17) {
        vec![InClass::Uniform]
    } else if n > 8192 {
        vec![InClass::Uniform, InClass::Positive, InClass::WideRange, InClass::Constant]
    } else {
        cfg.classes_small.clone()
    };
    for cl in classes {
        let data = inputs::gen::<T>(cl, n, rng);
        let l1 = l1_norm(&data);
        v.push(Input {
            label: cl.name().to_string(),
            data,
            impulse: None,
            l1,
        });
    }
    v
}

fn check_type<T: Elem>(cfg: &Cfg, st: &mut Stats, n: usize, reff: &RefFft, seed: u64, thorough: bool) {
    let mut rng = Rng::new(mix(&[seed, n as u64, T::EPS.to_bits()]));
    let inputs = make_inputs::<T>(cfg, n, &mut rng);
    let b = bound_b::<T>(n);
    // references
    let mut refs: Vec<Vec<Vec<Cdd>>> = vec![]; // [dir][input]
    for dir in DIRS {
        let mut per = vec![];
        for inp in &inputs {
            let r = match inp.impulse {
                Some(j) => impulse_dft(n, j, dir, &reff.tw),
                None if inp.label == "constant" && n > cfg.dense_max => {
                    // closed form: X[0] = n * c exactly (double-double product), all other bins 0
                    let c0 = widen(&inp.data[..1])[0];
                    let mut r = vec![Cdd::ZERO; n];
                    r[0] = c0.scale(n as f64);
                    r
                }
                None => reff.transform(&widen(&inp.data), dir),
            };
            per.push(r);
        }
        refs.push(per);
    }
    for &pk in &cfg.planners {
        for (di, dir) in DIRS.iter().copied().enumerate() {
            let mut planner = match AnyPlanner::<T>::new(pk) {
                Some(p) => p,
                None => {
                    st.inc("planner_unavailable");
                    continue;
                }
            };
            let case_base = format!("planner={} type={} dir={} n={}", pk.name(), T::NAME, dname(dir), n);
            crate::guard::set_case(&format!("acc {} seed={}", case_base, seed));
            let (text, _) = planner.report(n, dir);
            for k in kinds_in(&text) {
                st.set("kinds", &format!("{}:{}", pk.name(), k));
            }
            let fft = planner.plan(n, dir);
            drop(planner);
            st.inc("transforms_planned");
            if fft.len() != n {
                st.violation(
                    &cfg.prop,
                    "acc",
                    &case_base,
                    vec![("what", J::s("planned transform reports wrong len")), ("len", J::u(fft.len()))],
                );
                continue;
            }
            if n == 0 {
                for &entry in &cfg.entries {
                    let shape = plain_shape(&*fft, entry, 0);
                    let r = invoke(&*fft, &[], &shape);
                    st.inc(&format!("calls_{}", entry.name()));
                    st.inc("evaluations");
                    if let Err(msg) = r.outcome {
                        st.violation(
                            &cfg.prop,
                            "acc",
                            &format!("{} entry={}", case_base, entry.name()),
                            vec![("what", J::s("length-0 transform rejected an empty buffer")), ("panic", J::s(&msg))],
                        );
                    }
                }
                continue;
            }
            let impulse_only = n > cfg.dense_max && n <= cfg.impulse_max;
            let rotating = [cfg.entries[(n + pk as usize + di) % cfg.entries.len()]];
            let entries: &[Entry] = if impulse_only { &rotating } else { &cfg.entries };
            if impulse_only {
                st.inc("impulse_only_transforms");
            }
            for &entry in entries {
                for (ii, inp) in inputs.iter().enumerate() {
                    let case = format!("{} entry={} input={}", case_base, entry.name(), inp.label);
                    let mut shape = plain_shape(&*fft, entry, n);
                    // alternate guard placement so both ends get exercised across the run
                    if (ii + n) % 2 == 1 {
                        shape.place = crate::guard::Place::Head;
                    }
                    let r = invoke(&*fft, &inp.data, &shape);
                    st.inc(&format!("calls_{}", entry.name()));
                    st.inc("evaluations");
                    if let Err(msg) = &r.outcome {
                        st.violation(
                            &cfg.prop,
                            "acc",
                            &case,
                            vec![("what", J::s("well-shaped call panicked")), ("panic", J::s(msg))],
                        );
                        continue;
                    }
                    let e = compare(&r.result, &refs[di][ii]);
                    st.add("outputs_compared", n);
                    if inp.impulse.is_some() {
                        st.inc("impulses_checked");
                    } else {
                        st.inc("dense_vectors_checked");
                    }
                    let l2_ratio = e.rel_l2 / (cfg.l2_factor * b);
                    st.worst(&format!("worst_l2_{}_{}", pk.name(), T::NAME), l2_ratio, || case.clone());
                    // raw err/B(n) per octave of n, to expose growth
                    if thorough || n >= 64 {
                        let oct = (n as f64).log2().floor() as usize;
                        st.worst(&format!("octave{:02}_errB_{}", oct, T::NAME), e.rel_l2 / b, || case.clone());
                    }
                    let mut bad = !(l2_ratio <= 1.0);
                    let mut what = "relative L2 error above tolerance";
                    let mut el_ratio = 0.0;
                    if cfg.elementwise {
                        el_ratio = e.max_abs / (cfg.elem_factor * b * inp.l1.max(f64::MIN_POSITIVE));
                        st.worst(&format!("worst_elem_{}_{}", pk.name(), T::NAME), el_ratio, || case.clone());
                        if !(el_ratio <= 1.0) && !bad {
                            bad = true;
                            what = "single output element off by more than tolerance";
                        }
                    }
                    if bad {
                        st.violation(
                            &cfg.prop,
                            "acc",
                            &case,
                            vec![
                                ("what", J::s(what)),
                                ("rel_l2", J::Num(e.rel_l2)),
                                ("l2_tolerance", J::Num(cfg.l2_factor * b)),
                                ("max_abs_err", J::Num(e.max_abs)),
                                ("elem_ratio", J::Num(el_ratio)),
                                ("worst_index", J::u(e.worst_k)),
                                ("finite", J::Bool(e.finite)),
                                ("plan", J::s(&text)),
                            ],
                        );
                    }
                    if n >= 16 && inp.impulse.is_none() { st.sample(3, || {
                        J::obj(vec![
                            ("case", J::s(&case)),
                            ("rel_l2_error", J::Num(e.rel_l2)),
                            ("bound_B", J::Num(b)),
                            ("plan", J::s(&text)),
                        ])
                    }); }
                }
            }
            st.set_distinct(&format!("{}|{}|{}", pk.name(), T::NAME, n));
        }
    }
}

pub fn run(args: &Args) {
    let cfg = cfg_for(args);
    let mut st = Stats::new();
    let list = match (args.get_usize("only-n"), args.get("ns")) {
        (Some(n), _) => vec![n],
        (None, Some(ns)) => ns.split(',').filter_map(|s| s.parse().ok()).collect(),
        (None, None) => length_list(&cfg, args.seed),
    };
    let types = args.get("types").unwrap_or("f32,f64").to_string();
    let mut max_n = 0;
    for (i, &n) in list.iter().enumerate() {
        if args.get("only-n").is_none() && !cases::mine(i, args.shard) {
            continue;
        }
        let reff = RefFft::new(n);
        if types.contains("f32") {
            check_type::<f32>(&cfg, &mut st, n, &reff, args.seed, args.tier_thorough);
        }
        if types.contains("f64") {
            check_type::<f64>(&cfg, &mut st, n, &reff, args.seed, args.tier_thorough);
        }
        st.inc("lengths");
        max_n = max_n.max(n);
    }
    st.max("max_n", max_n);
    st.emit_summary();
}
