//! Minimal JSON value + writer (no external crates), and the line protocol workers use to talk to the driver.

use std::fmt::Write as _;

#[derive(Clone, Debug)]
pub enum J {
    Null,
    Bool(bool),
    Int(i64),
    Num(f64),
    Str(String),
    Arr(Vec<J>),
    Obj(Vec<(String, J)>),
}

impl J {
    pub fn s(x: &str) -> J {
        J::Str(x.to_string())
    }
    pub fn u(x: usize) -> J {
        J::Int(x as i64)
    }
    pub fn obj(pairs: Vec<(&str, J)>) -> J {
        J::Obj(pairs.into_iter().map(|(k, v)| (k.to_string(), v)).collect())
    }
    pub fn write(&self, out: &mut String) {
        match self {
            J::Null => out.push_str("null"),
            J::Bool(b) => out.push_str(if *b { "true" } else { "false" }),
            J::Int(i) => {
                let _ = write!(out, "{}", i);
            }
            J::Num(f) => {
                if f.is_finite() {
                    let _ = write!(out, "{:e}", f);
                } else {
                    let _ = write!(out, "\"{}\"", f);
                }
            }
            J::Str(s) => {
                out.push('"');
                for ch in s.chars() {
                    match ch {
                        '"' => out.push_str("\\\""),
                        '\\' => out.push_str("\\\\"),
                        '\n' => out.push_str("\\n"),
                        '\r' => out.push_str("\\r"),
                        '\t' => out.push_str("\\t"),
                        c if (c as u32) < 0x20 => {
                            let _ = write!(out, "\\u{:04x}", c as u32);
                        }
                        c => out.push(c),
                    }
                }
                out.push('"');
            }
            J::Arr(a) => {
                out.push('[');
                for (i, v) in a.iter().enumerate() {
                    if i > 0 {
                        out.push(',');
                    }
                    v.write(out);
                }
                out.push(']');
            }
            J::Obj(o) => {
                out.push('{');
                for (i, (k, v)) in o.iter().enumerate() {
                    if i > 0 {
                        out.push(',');
                    }
                    J::Str(k.clone()).write(out);
                    out.push(':');
                    v.write(out);
                }
                out.push('}');
            }
        }
    }
    pub fn to_string(&self) -> String {
        let mut s = String::new();
        self.write(&mut s);
        s
    }
}

/// Emit one protocol line on stdout: `@@ <json>`
pub fn emit(kind: &str, mut fields: Vec<(&str, J)>) {
    let mut all = vec![("kind", J::s(kind))];
    all.append(&mut fields);
    let line = J::obj(all).to_string();
    use std::io::Write;
    let stdout = std::io::stdout();
    let mut h = stdout.lock();
    let _ = writeln!(h, "@@ {}", line);
    let _ = h.flush();
}
