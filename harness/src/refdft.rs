//! Reference DFTs in double-double arithmetic, written for the harness and independent of RustFFT.
//!  * `naive_dft`  : the definition, O(n^2)
//!  * `RefFft`     : O(n log n) recursive Cooley-Tukey over the prime factorisation, naive steps for
//!                   prime radices <= 256, Bluestein (over a power-of-two RefFft) for larger primes.
//! `RefFft` is validated against `naive_dft` by `selftest`.

use crate::dd::{twiddle_fwd, Cdd};
use std::collections::HashMap;

#[derive(Copy, Clone, PartialEq, Eq, Debug)]
pub enum Dir {
    Fwd,
    Inv,
}

pub fn naive_dft(x: &[Cdd], dir: Dir) -> Vec<Cdd> {
    let n = x.len();
    if n == 0 {
        return vec![];
    }
    let tw: Vec<Cdd> = (0..n)
        .map(|j| {
            let w = twiddle_fwd(j as u64, n as u64);
            if dir == Dir::Inv {
                w.conj()
            } else {
                w
            }
        })
        .collect();
    let mut out = vec![Cdd::ZERO; n];
    for k in 0..n {
        let mut acc = Cdd::ZERO;
        let mut e = 0usize;
        for j in 0..n {
            acc = acc + x[j] * tw[e];
            e += k;
            if e >= n {
                e -= n;
            }
        }
        out[k] = acc;
    }
    out
}

/// DFT of the unit impulse e_j: X[k] = w^(jk). O(n).
pub fn impulse_dft(n: usize, j: usize, dir: Dir, tw_fwd: &[Cdd]) -> Vec<Cdd> {
    let mut out = Vec::with_capacity(n);
    let mut e = 0usize;
    for _k in 0..n {
        let w = tw_fwd[e];
        out.push(if dir == Dir::Inv { w.conj() } else { w });
        e += j;
        if e >= n {
            e -= n;
        }
    }
    out
}

pub fn smallest_prime_factor(n: usize) -> usize {
    if n % 2 == 0 {
        return 2;
    }
    let mut p = 3;
    while p * p <= n {
        if n % p == 0 {
            return p;
        }
        p += 2;
    }
    n
}

struct Blue {
    m: usize,          // padded power-of-two length
    chirp: Vec<Cdd>,   // exp(-pi i k^2 / len), k in 0..len
    kernel: Vec<Cdd>,  // FFT_m of the circularly placed conj chirp
    inner: Box<RefFft>,
}

pub struct RefFft {
    pub n: usize,
    /// exp(-2 pi i j / n) for j in 0..n
    pub tw: Vec<Cdd>,
    blue: HashMap<usize, Blue>,
}

const NAIVE_PRIME_LIMIT: usize = 256;

impl RefFft {
    pub fn new(n: usize) -> RefFft {
        let tw: Vec<Cdd> = (0..n).map(|j| twiddle_fwd(j as u64, n as u64)).collect();
        let mut r = RefFft {
            n,
            tw,
            blue: HashMap::new(),
        };
        // collect the large prime lengths the recursion will meet
        let mut m = n;
        let mut larges = vec![];
        while m > 1 {
            let p = smallest_prime_factor(m);
            if p > NAIVE_PRIME_LIMIT {
                // all remaining prime factors are > limit; recursion strips them one by one: m = p * rest.
                // the sub-problem reached with length == prime p happens when rest == 1; otherwise p is used as a radix
                // in a naive combine step (cost n*p). To keep that cheap we instead treat the *whole* remaining
                // m as one Bluestein problem.
                larges.push(m);
                break;
            }
            m /= p;
        }
        for len in larges {
            r.blue.insert(len, Self::make_blue(len));
        }
        r
    }

    fn make_blue(len: usize) -> Blue {
        let m = (2 * len - 1).next_power_of_two();
        let chirp: Vec<Cdd> = (0..len)
            .map(|k| {
                let e = ((k as u128 * k as u128) % (2 * len as u128)) as u64;
                twiddle_fwd(e, 2 * len as u64)
            })
            .collect();
        let inner = Box::new(RefFft::new(m));
        let mut b = vec![Cdd::ZERO; m];
        b[0] = chirp[0].conj();
        for k in 1..len {
            b[k] = chirp[k].conj();
            b[m - k] = chirp[k].conj();
        }
        let kernel = inner.forward(&b);
        Blue {
            m,
            chirp,
            kernel,
            inner,
        }
    }

    #[inline(always)]
    fn w(&self, sub_n: usize, e: usize) -> Cdd {
        // w_{sub_n}^e, sub_n divides self.n
        self.tw[(e % sub_n) * (self.n / sub_n)]
    }

    pub fn forward(&self, x: &[Cdd]) -> Vec<Cdd> {
        assert_eq!(x.len(), self.n);
        if self.n == 0 {
            return vec![];
        }
        self.rec(x, 0, 1, self.n)
    }

    pub fn transform(&self, x: &[Cdd], dir: Dir) -> Vec<Cdd> {
        match dir {
            Dir::Fwd => self.forward(x),
            Dir::Inv => {
                let xc: Vec<Cdd> = x.iter().map(|v| v.conj()).collect();
                self.forward(&xc).into_iter().map(|v| v.conj()).collect()
            }
        }
    }

    fn rec(&self, x: &[Cdd], off: usize, stride: usize, n: usize) -> Vec<Cdd> {
        if n == 1 {
            return vec![x[off]];
        }
        if let Some(b) = self.blue.get(&n) {
            return self.bluestein(b, x, off, stride, n);
        }
        let p = smallest_prime_factor(n);
        let m = n / p;
        // sub transforms
        let mut ys: Vec<Vec<Cdd>> = Vec::with_capacity(p);
        for r in 0..p {
            ys.push(self.rec(x, off + r * stride, stride * p, m));
        }
        let mut out = vec![Cdd::ZERO; n];
        if p == 2 {
            for k in 0..m {
                let z0 = ys[0][k];
                let z1 = ys[1][k] * self.w(n, k);
                out[k] = z0 + z1;
                out[k + m] = z0 - z1;
            }
            return out;
        }
        // twiddle
        for r in 1..p {
            for k in 0..m {
                ys[r][k] = ys[r][k] * self.w(n, r * k);
            }
        }
        // length-p naive DFTs across r
        let wp: Vec<Cdd> = (0..p).map(|e| self.w(p, e)).collect();
        for k in 0..m {
            for q in 0..p {
                let mut acc = ys[0][k];
                let mut e = 0usize;
                for r in 1..p {
                    e += q;
                    if e >= p {
                        e -= p;
                    }
                    acc = acc + ys[r][k] * wp[e];
                }
                out[k + m * q] = acc;
            }
        }
        out
    }

    fn bluestein(&self, b: &Blue, x: &[Cdd], off: usize, stride: usize, n: usize) -> Vec<Cdd> {
        let mut a = vec![Cdd::ZERO; b.m];
        for j in 0..n {
            a[j] = x[off + j * stride] * b.chirp[j];
        }
        let fa = b.inner.forward(&a);
        let prod: Vec<Cdd> = fa
            .iter()
            .zip(b.kernel.iter())
            .map(|(u, v)| (*u * *v).conj())
            .collect();
        // inverse FFT = conj(FFT(conj(.)))/m
        let conv = b.inner.forward(&prod);
        let scale = 1.0 / b.m as f64; // power of two: exact
        (0..n)
            .map(|k| conv[k].conj().scale(scale) * b.chirp[k])
            .collect()
    }
}

pub fn selftest() -> Result<(), String> {
    use crate::rng::Rng;
    let mut rng = Rng::new(99);
    let mut lens: Vec<usize> = (1..=130).collect();
    lens.extend_from_slice(&[256, 257, 263, 289, 512, 514, 521, 526, 769, 1024, 1031, 1543]);
    for n in lens {
        let x: Vec<Cdd> = (0..n)
            .map(|_| Cdd::from_f64(rng.sym(), rng.sym()))
            .collect();
        let f = RefFft::new(n);
        for dir in [Dir::Fwd, Dir::Inv] {
            let a = naive_dft(&x, dir);
            let b = f.transform(&x, dir);
            let mut num = 0.0;
            let mut den = 0.0;
            for k in 0..n {
                num += (a[k] - b[k]).norm_sqr_f64();
                den += a[k].norm_sqr_f64();
            }
            let rel = (num / den.max(1e-300)).sqrt();
            if rel > 1e-28 {
                return Err(format!(
                    "RefFft disagrees with naive dd DFT at n={} dir={:?}: rel={:e}",
                    n, dir, rel
                ));
            }
        }
        // impulse formula
        if n > 1 {
            let j = rng.range(0, n - 1);
            let mut e = vec![Cdd::ZERO; n];
            e[j] = Cdd::ONE;
            let a = naive_dft(&e, Dir::Fwd);
            let b = impulse_dft(n, j, Dir::Fwd, &f.tw);
            for k in 0..n {
                if (a[k] - b[k]).norm_sqr_f64().sqrt() > 1e-29 {
                    return Err(format!("impulse formula wrong at n={} j={} k={}", n, j, k));
                }
            }
        }
    }
    Ok(())
}
