//! Small deterministic PRNG (splitmix64 seeding + xoshiro256**). No external crate.

#[derive(Clone, Debug)]
pub struct Rng {
    s: [u64; 4],
}

pub fn splitmix64(state: &mut u64) -> u64 {
    *state = state.wrapping_add(0x9E3779B97F4A7C15);
    let mut z = *state;
    z = (z ^ (z >> 30)).wrapping_mul(0xBF58476D1CE4E5B9);
    z = (z ^ (z >> 27)).wrapping_mul(0x94D049BB133111EB);
    z ^ (z >> 31)
}

/// Mix several integers into one 64-bit seed
pub fn mix(parts: &[u64]) -> u64 {
    let mut st = 0x243F6A8885A308D3u64;
    let mut acc = 0u64;
    for p in parts {
        st ^= *p;
        acc = acc.rotate_left(17) ^ splitmix64(&mut st);
    }
    acc
}

impl Rng {
    pub fn new(seed: u64) -> Self {
        let mut st = seed;
        let s = [
            splitmix64(&mut st),
            splitmix64(&mut st),
            splitmix64(&mut st),
            splitmix64(&mut st),
        ];
        Rng { s }
    }
    pub fn next_u64(&mut self) -> u64 {
        let result = self.s[1].wrapping_mul(5).rotate_left(7).wrapping_mul(9);
        let t = self.s[1] << 17;
        self.s[2] ^= self.s[0];
        self.s[3] ^= self.s[1];
        self.s[1] ^= self.s[2];
        self.s[0] ^= self.s[3];
        self.s[2] ^= t;
        self.s[3] = self.s[3].rotate_left(45);
        result
    }
    /// uniform in [0, n)  (n > 0)
    pub fn below(&mut self, n: u64) -> u64 {
        // multiply-shift; bias is negligible for our n
        ((self.next_u64() as u128 * n as u128) >> 64) as u64
    }
    pub fn range(&mut self, lo: usize, hi_incl: usize) -> usize {
        lo + self.below((hi_incl - lo + 1) as u64) as usize
    }
    /// uniform in [0,1)
    pub fn unit(&mut self) -> f64 {
        (self.next_u64() >> 11) as f64 * (1.0 / (1u64 << 53) as f64)
    }
    /// uniform in [-1,1)
    pub fn sym(&mut self) -> f64 {
        2.0 * self.unit() - 1.0
    }
    /// roughly gaussian (sum of 4 uniforms, variance 1)
    pub fn gauss(&mut self) -> f64 {
        (self.sym() + self.sym() + self.sym() + self.sym()) * 0.8660254037844386
    }
    pub fn chance(&mut self, p: f64) -> bool {
        self.unit() < p
    }
    pub fn pick<'a, T>(&mut self, xs: &'a [T]) -> &'a T {
        &xs[self.below(xs.len() as u64) as usize]
    }
}
