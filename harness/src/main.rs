#![allow(dead_code)]
//! fftmon: runtime monitors for RustFFT. One binary, one sub-command per monitor.
//! Workers print protocol lines `@@ {json}` on stdout; everything else is free text.

mod acc;
mod cases;
mod cfgmon;
mod cnt;
mod common;
mod conc;
mod dd;
mod fp;
mod fpx;
mod guard;
mod inputs;
mod out;
mod planmon;
mod refdft;
mod rng;
mod seqmon;
mod shape;
mod stats;
mod trees;

use out::J;
use std::collections::HashMap;

pub fn trees_gcd(a: usize, b: usize) -> usize {
    if b == 0 {
        a
    } else {
        trees_gcd(b, a % b)
    }
}

pub struct Args {
    pub cmd: String,
    pub opts: HashMap<String, String>,
    pub tier_thorough: bool,
    pub seed: u64,
    pub shard: (usize, usize),
}
impl Args {
    pub fn get(&self, k: &str) -> Option<&str> {
        self.opts.get(k).map(|s| s.as_str())
    }
    pub fn get_usize(&self, k: &str) -> Option<usize> {
        self.get(k).and_then(|s| s.parse().ok())
    }
    pub fn flag(&self, k: &str) -> bool {
        self.opts.contains_key(k)
    }
}

fn parse_args() -> Args {
    let argv: Vec<String> = std::env::args().collect();
    let cmd = argv.get(1).cloned().unwrap_or_else(|| "help".to_string());
    let mut opts = HashMap::new();
    let mut i = 2;
    while i < argv.len() {
        let a = &argv[i];
        if let Some(k) = a.strip_prefix("--") {
            if i + 1 < argv.len() && !argv[i + 1].starts_with("--") {
                opts.insert(k.to_string(), argv[i + 1].clone());
                i += 2;
            } else {
                opts.insert(k.to_string(), String::from("1"));
                i += 1;
            }
        } else {
            opts.insert(format!("arg{}", i), a.clone());
            i += 1;
        }
    }
    let tier_thorough = opts.get("tier").map(|s| s == "thorough").unwrap_or(false);
    let seed = opts.get("seed").and_then(|s| s.parse().ok()).unwrap_or(1);
    let shard = opts
        .get("shard")
        .and_then(|s| {
            let mut it = s.split('/');
            Some((it.next()?.parse().ok()?, it.next()?.parse().ok()?))
        })
        .unwrap_or((0, 1));
    Args {
        cmd,
        opts,
        tier_thorough,
        seed,
        shard,
    }
}

fn selftest() -> Result<(), String> {
    dd::selftest()?;
    refdft::selftest()?;
    fp::selftest()?;
    Ok(())
}

fn main() {
    let args = parse_args();
    // panics are observed through catch_unwind; keep stderr quiet unless asked
    if !args.flag("loud") {
        std::panic::set_hook(Box::new(|_| {}));
    }
    guard::install_crash_handler();
    if let Some(m) = args.get_usize("mask") {
        // hide CPU capabilities from RustFFT's feature detection (hook 1); can only remove capabilities
        rustfft::verif_hooks::set_hidden_features(m as u32);
    }
    if args.flag("minimal-ill") {
        shape::MINIMAL_ILL.store(true, std::sync::atomic::Ordering::Relaxed);
    }
    match args.cmd.as_str() {
        "selftest" => match selftest() {
            Ok(()) => out::emit("selftest", vec![("ok", J::Bool(true))]),
            Err(e) => {
                out::emit("selftest", vec![("ok", J::Bool(false)), ("error", J::Str(e))]);
                std::process::exit(3);
            }
        },
        "guard-fault" => guard::fault_probe(args.get("which").unwrap_or("tail")),
        "noop" => {}
        "twiddle" => {
            let k = args.get_usize("k").unwrap_or(1) as u64;
            let n = args.get_usize("n").unwrap_or(7) as u64;
            let (c, s) = dd::cos_sin_2pi(k, n);
            println!("{:e} {:e} {:e} {:e}", c.hi, c.lo, s.hi, s.lo);
        }
        "acc" => acc::run(&args),
        "fpx" => fpx::run(&args),
        "shape" => shape::run(&args),
        "c13-table" => cfgmon::run_c13_table(&args),
        "c14-types" => cfgmon::run_c14_types(&args),
        "c12" => trees::run(&args),
        "c10" => seqmon::run(&args),
        "c11" => conc::run(&args),
        "c04" => planmon::run_c04(&args),
        "c05" => planmon::run_c05(&args),
        "c06" => planmon::run_c06(&args),
        _ => {
            eprintln!("usage: fftmon <selftest|guard-fault|acc|...> [--tier quick|thorough] [--seed N] [--shard i/N] ...");
            std::process::exit(2);
        }
    }
}
