//! Length lists shared by the monitors.

use crate::rng::Rng;

pub fn is_prime(n: usize) -> bool {
    if n < 2 {
        return false;
    }
    if n % 2 == 0 {
        return n == 2;
    }
    let mut p = 3;
    while p * p <= n {
        if n % p == 0 {
            return false;
        }
        p += 2;
    }
    true
}

pub fn largest_prime_factor(mut n: usize) -> usize {
    let mut best = 1;
    let mut p = 2;
    while p * p <= n {
        while n % p == 0 {
            best = p;
            n /= p;
        }
        p += 1;
    }
    if n > 1 {
        best = n;
    }
    best
}

/// Structured lengths up to `max` (sorted, deduplicated): the classes listed in DESIGN.md section 3.
pub fn structured(max: usize) -> Vec<usize> {
    let mut v: Vec<usize> = vec![];
    let mut push = |x: usize| {
        if x >= 1 && x <= max {
            v.push(x)
        }
    };
    // powers of two and neighbours, 3*2^a, 9*2^a, 5*2^a, 7*2^a, 11*2^a
    let mut p = 1usize;
    while p <= max {
        for m in [1usize, 3, 5, 7, 9, 11, 13, 15, 27] {
            push(p * m);
        }
        push(p + 1);
        if p > 1 {
            push(p - 1);
        }
        p *= 2;
    }
    // prime powers
    for b in [3usize, 5, 7, 11, 13, 17, 19, 23, 29, 31, 37, 41] {
        let mut x = b;
        while x <= max {
            push(x);
            push(2 * x);
            push(4 * x);
            x = match x.checked_mul(b) {
                Some(y) => y,
                None => break,
            };
        }
    }
    // AVX planner's hard-coded special cases and their multiples by 5/7/11
    for s in [18usize, 48, 64, 72, 96, 108, 144, 192, 288, 768, 1536, 36, 54, 128, 256, 512] {
        for m in [1usize, 5, 7, 11, 25, 35, 49, 55, 77, 121] {
            push(s * m);
        }
    }
    // smooth numbers near powers of two: 2^a3^b5^c7^d11^e in [2^t - 2^t/16, 2^t + 2^t/16]
    {
        let mut smooth = vec![];
        let mut a = 1usize;
        while a <= max {
            let mut b = a;
            while b <= max {
                let mut c = b;
                while c <= max {
                    let mut d = c;
                    while d <= max {
                        let mut e = d;
                        while e <= max {
                            smooth.push(e);
                            e = e.saturating_mul(11);
                        }
                        d = d.saturating_mul(7);
                    }
                    c = c.saturating_mul(5);
                }
                b = b.saturating_mul(3);
            }
            a = a.saturating_mul(2);
        }
        smooth.sort();
        let mut t = 64usize;
        while t <= max {
            let lo = t - t / 16;
            let hi = t + t / 16;
            let near: Vec<usize> = smooth.iter().copied().filter(|x| *x >= lo && *x <= hi).collect();
            // take at most 6 spread over the window
            let step = (near.len() / 6).max(1);
            for x in near.iter().step_by(step) {
                push(*x);
            }
            t *= 2;
        }
    }
    // primes: Rader-friendly (n-1 is 23-smooth) and Bluestein (n-1 has a large factor), near each power of two
    {
        let mut t = 32usize;
        while t <= max {
            let mut rader = 0;
            let mut blue = 0;
            let mut x = t + 1;
            while x <= max && x < 2 * t && (rader < 3 || blue < 3) {
                if is_prime(x) {
                    if largest_prime_factor(x - 1) <= 23 {
                        if rader < 3 {
                            push(x);
                            push(2 * x);
                            push(3 * x);
                            rader += 1;
                        }
                    } else if blue < 3 {
                        push(x);
                        push(2 * x);
                        push(8 * x);
                        blue += 1;
                    }
                }
                x += 1;
            }
            t *= 2;
        }
    }
    // Cunningham chain of the first kind starting at 89 and at 2: p -> 2p+1
    for start in [2usize, 89] {
        let mut x = start;
        while x <= max {
            push(x);
            x = 2 * x + 1;
        }
    }
    // products of two large primes
    for (a, b) in [
        (37usize, 41usize),
        (59, 61),
        (127, 131),
        (251, 257),
        (509, 521),
        (1009, 1013),
        (37, 37),
        (97, 101),
        (199, 211),
    ] {
        push(a * b);
        push(a * b * 2);
    }
    // every residue of the row length modulo the SIMD width for each AVX radix: rows r * radix, r in 1..=9 plus 16..19
    for radix in [2usize, 3, 4, 5, 6, 7, 8, 9, 11, 12, 16] {
        for r in (1..=9).chain(16..=19).chain(33..=35) {
            push(radix * r);
            push(radix * r * 8);
        }
    }
    v.sort();
    v.dedup();
    v
}

/// Deterministic subsample of `v` to at most `k` entries (keeps the extremes), seeded.
pub fn subsample(v: &[usize], k: usize, rng: &mut Rng) -> Vec<usize> {
    if v.len() <= k {
        return v.to_vec();
    }
    let mut idx: Vec<usize> = (0..v.len()).collect();
    // partial Fisher-Yates
    for i in 0..k {
        let j = i + rng.below((idx.len() - i) as u64) as usize;
        idx.swap(i, j);
    }
    let mut out: Vec<usize> = idx[..k].iter().map(|i| v[*i]).collect();
    out.sort();
    out
}

/// Is item number `i` ours under shard `(s, of)`?
pub fn mine(i: usize, shard: (usize, usize)) -> bool {
    i % shard.1 == shard.0
}
