//! Exact oracle: a prime-field element type `Fp` that satisfies RustFFT's public numeric bound (`FftNum`).
//!
//! The crate hands the element type cos/sin of rational angles as f64 (`T::from_f64`). Let S be a set of twiddle
//! orders, L = lcm(S u {8}), q a prime = 1 (mod L), g in F_q of exact order L. The ring homomorphism
//! Z[zeta_L, 1/2] -> F_q, zeta_L -> g maps cos(2 pi a/m) to (g^(aL/m) + g^(-aL/m))/2 (sin x = cos(x - pi/2) is covered by
//! the same map once 4m | L). `from_f64(v)` looks v up in the table {cos(2 pi a/m)} and returns the image. Every
//! identity an FFT relies on holds in Z[zeta_L,1/2][x]/(x^2+1), so a correct algorithm yields *exactly*
//! X[k] = sum_j x[j] W^(jk) in Complex<Fp>; any wrong index/sign/scale maps to a different field element.
//!
//! S is discovered adaptively (no hook): plan, collect the f64 constants that missed the table, identify each as the
//! simplest fraction a/m whose cosine is within tolerance, add m, rebuild the field, plan again.
//! Guards (each makes the length *inconclusive*, never a violation): two table entries with different images closer than
//! 100x the tolerance; L >= 2^50; a constant that cannot be identified; too many rounds.

use rustfft::num_traits::{FromPrimitive, Num, One, Signed, ToPrimitive, Zero};
use std::cell::RefCell;
use std::ops::{Add, AddAssign, Div, Mul, MulAssign, Neg, Rem, Sub, SubAssign};
use std::sync::atomic::{AtomicU64, Ordering};

static Q: AtomicU64 = AtomicU64::new(0);
static NON_RING_OPS: AtomicU64 = AtomicU64::new(0);

pub const TOL: f64 = 4e-15;
const MAX_ORDER: u64 = 1 << 23;

#[inline(always)]
fn q() -> u64 {
    Q.load(Ordering::Relaxed)
}
#[inline(always)]
fn mulmod(a: u64, b: u64, m: u64) -> u64 {
    ((a as u128 * b as u128) % m as u128) as u64
}
fn powmod(mut b: u64, mut e: u64, m: u64) -> u64 {
    let mut r = 1u64 % m;
    b %= m;
    while e > 0 {
        if e & 1 == 1 {
            r = mulmod(r, b, m);
        }
        b = mulmod(b, b, m);
        e >>= 1;
    }
    r
}
fn invmod(a: u64, m: u64) -> u64 {
    powmod(a, m - 2, m)
}
fn is_prime_u64(n: u64) -> bool {
    if n < 2 {
        return false;
    }
    for p in [2u64, 3, 5, 7, 11, 13, 17, 19, 23, 29, 31, 37] {
        if n % p == 0 {
            return n == p;
        }
    }
    let mut d = n - 1;
    let mut r = 0;
    while d % 2 == 0 {
        d /= 2;
        r += 1;
    }
    'w: for a in [2u64, 3, 5, 7, 11, 13, 17, 19, 23, 29, 31, 37] {
        let mut x = powmod(a, d, n);
        if x == 1 || x == n - 1 {
            continue;
        }
        for _ in 0..r - 1 {
            x = mulmod(x, x, n);
            if x == n - 1 {
                continue 'w;
            }
        }
        return false;
    }
    true
}
fn gcd(a: u64, b: u64) -> u64 {
    if b == 0 {
        a
    } else {
        gcd(b, a % b)
    }
}
fn prime_factors(mut n: u64) -> Vec<u64> {
    let mut v = vec![];
    let mut p = 2u64;
    while p * p <= n {
        if n % p == 0 {
            v.push(p);
            while n % p == 0 {
                n /= p;
            }
        }
        p += if p == 2 { 1 } else { 2 };
    }
    if n > 1 {
        v.push(n);
    }
    v
}

#[derive(Copy, Clone, PartialEq, Eq, Debug, Default)]
pub struct Fp(pub u64);

impl Fp {
    #[inline(always)]
    pub fn new(v: u64) -> Fp {
        Fp(v % q())
    }
    pub fn inv(self) -> Fp {
        Fp(invmod(self.0, q()))
    }
    pub fn pow(self, e: u64) -> Fp {
        Fp(powmod(self.0, e, q()))
    }
    pub fn from_i128(v: i128) -> Fp {
        let m = q() as i128;
        Fp((((v % m) + m) % m) as u64)
    }
}
impl Add for Fp {
    type Output = Fp;
    #[inline(always)]
    fn add(self, b: Fp) -> Fp {
        let m = q();
        let s = self.0 + b.0;
        Fp(if s >= m { s - m } else { s })
    }
}
impl Sub for Fp {
    type Output = Fp;
    #[inline(always)]
    fn sub(self, b: Fp) -> Fp {
        let m = q();
        Fp(if self.0 >= b.0 { self.0 - b.0 } else { self.0 + m - b.0 })
    }
}
impl Mul for Fp {
    type Output = Fp;
    #[inline(always)]
    fn mul(self, b: Fp) -> Fp {
        Fp(mulmod(self.0, b.0, q()))
    }
}
impl Neg for Fp {
    type Output = Fp;
    #[inline(always)]
    fn neg(self) -> Fp {
        Fp(if self.0 == 0 { 0 } else { q() - self.0 })
    }
}
impl Div for Fp {
    type Output = Fp;
    fn div(self, b: Fp) -> Fp {
        if b.0 == 0 {
            panic!("Fp: division by zero");
        }
        self * b.inv()
    }
}
fn non_ring(what: &str) -> ! {
    NON_RING_OPS.fetch_add(1, Ordering::SeqCst);
    panic!("Fp: non-ring operation `{}` used on the element type", what);
}
impl Rem for Fp {
    type Output = Fp;
    fn rem(self, _b: Fp) -> Fp {
        non_ring("rem")
    }
}
impl AddAssign for Fp {
    fn add_assign(&mut self, b: Fp) {
        *self = *self + b;
    }
}
impl SubAssign for Fp {
    fn sub_assign(&mut self, b: Fp) {
        *self = *self - b;
    }
}
impl MulAssign for Fp {
    fn mul_assign(&mut self, b: Fp) {
        *self = *self * b;
    }
}
impl Zero for Fp {
    fn zero() -> Fp {
        Fp(0)
    }
    fn is_zero(&self) -> bool {
        self.0 == 0
    }
}
impl One for Fp {
    fn one() -> Fp {
        Fp(1)
    }
}
impl Num for Fp {
    type FromStrRadixErr = ();
    fn from_str_radix(_s: &str, _r: u32) -> Result<Fp, ()> {
        non_ring("from_str_radix")
    }
}
impl Signed for Fp {
    fn abs(&self) -> Fp {
        non_ring("abs")
    }
    fn abs_sub(&self, _o: &Fp) -> Fp {
        non_ring("abs_sub")
    }
    fn signum(&self) -> Fp {
        non_ring("signum")
    }
    fn is_positive(&self) -> bool {
        non_ring("is_positive")
    }
    fn is_negative(&self) -> bool {
        non_ring("is_negative")
    }
}
impl ToPrimitive for Fp {
    fn to_i64(&self) -> Option<i64> {
        non_ring("to_i64")
    }
    fn to_u64(&self) -> Option<u64> {
        non_ring("to_u64")
    }
}
impl FromPrimitive for Fp {
    fn from_i64(n: i64) -> Option<Fp> {
        CTX.with(|c| c.borrow_mut().int_conversions += 1);
        Some(Fp::from_i128(n as i128))
    }
    fn from_u64(n: u64) -> Option<Fp> {
        CTX.with(|c| c.borrow_mut().int_conversions += 1);
        Some(Fp::new(n))
    }
    fn from_f64(v: f64) -> Option<Fp> {
        Some(CTX.with(|c| c.borrow_mut().lookup(v)))
    }
    fn from_f32(v: f32) -> Option<Fp> {
        // an f32 constant cannot carry a twiddle to the precision the table needs; it is looked up like any other
        // constant and will be reported as unidentifiable unless it is a small dyadic rational
        Some(CTX.with(|c| c.borrow_mut().lookup(v as f64)))
    }
}

// ---------------------------------------------------------------------------------------------

#[derive(Default)]
pub struct FieldCtx {
    pub q: u64,
    pub l: u64,
    pub g: u64,
    pub orders: Vec<u64>,
    /// sorted by value: (cos value, field image)
    table: Vec<(f64, u64)>,
    pub misses: Vec<f64>,
    /// bit patterns of constants that are not cosines of rational angles but f64 roundings of simple rationals (e.g. 1/96):
    /// they are converted faithfully, as the dyadic rational the f64 *is*
    pub rational_consts: Vec<u64>,
    pub lookups: u64,
    pub rational_hits: u64,
    pub int_conversions: u64,
}

thread_local! {
    pub static CTX: RefCell<FieldCtx> = RefCell::new(FieldCtx::default());
}

impl FieldCtx {
    fn lookup(&mut self, v: f64) -> Fp {
        self.lookups += 1;
        // small dyadic rationals (integers, 1/2, ...) are mapped as rationals; by Niven's theorem the only rational
        // cosines of rational angles are 0, +-1/2, +-1, for which both readings agree
        let scaled = v * 1048576.0;
        if v.is_finite() && scaled == scaled.trunc() && scaled.abs() < 1e15 {
            self.rational_hits += 1;
            let num = Fp::from_i128(scaled as i128);
            let den = Fp::new(1048576);
            return num * den.inv();
        }
        // binary search for the nearest table entry
        let t = &self.table;
        if !t.is_empty() {
            let idx = t.partition_point(|e| e.0 < v);
            let mut best: Option<(f64, u64)> = None;
            for j in [idx.wrapping_sub(1), idx] {
                if j < t.len() {
                    let d = (t[j].0 - v).abs();
                    if d <= TOL && best.map(|b| d < b.0).unwrap_or(true) {
                        best = Some((d, t[j].1));
                    }
                }
            }
            if let Some((_, img)) = best {
                return Fp(img);
            }
        }
        if self.rational_consts.contains(&v.to_bits()) {
            self.rational_hits += 1;
            return dyadic_image(v);
        }
        self.misses.push(v);
        Fp(0)
    }
}

/// The field image of the dyadic rational that the finite f64 `v` is (exact, faithful conversion)
fn dyadic_image(v: f64) -> Fp {
    if v == 0.0 {
        return Fp(0);
    }
    let bits = v.to_bits();
    let neg = (bits >> 63) != 0;
    let exp_bits = ((bits >> 52) & 0x7ff) as i64;
    let frac = bits & ((1u64 << 52) - 1);
    let (mant, exp) = if exp_bits == 0 { (frac, -1074i64) } else { (frac | (1u64 << 52), exp_bits - 1075) };
    let m = Fp::new(mant);
    let two = Fp::new(2);
    let scaled = if exp >= 0 { m * two.pow(exp as u64) } else { m * two.inv().pow((-exp) as u64) };
    if neg {
        -scaled
    } else {
        scaled
    }
}

/// Is v (within a relative 4e-16) a fraction with a denominator below 2^20?
fn near_simple_rational(v: f64) -> bool {
    let a = v.abs();
    if !(a.is_finite()) || a == 0.0 || a > 1e6 {
        return false;
    }
    simplest_between(a * (1.0 - 4e-16), a * (1.0 + 4e-16), 1 << 20).is_some()
}

#[derive(Debug, Clone)]
pub enum FieldErr {
    Ambiguous(String),
    TooLarge(String),
    Unidentifiable(f64),
    NoPrime,
    Rounds,
}
impl FieldErr {
    pub fn reason(&self) -> String {
        match self {
            FieldErr::Ambiguous(s) => format!("ambiguous-table({})", s),
            FieldErr::TooLarge(s) => format!("field-too-large({})", s),
            FieldErr::Unidentifiable(v) => format!("unidentifiable-constant({:e})", v),
            FieldErr::NoPrime => "no-prime".to_string(),
            FieldErr::Rounds => "too-many-discovery-rounds".to_string(),
        }
    }
}

fn lcm_checked(a: u64, b: u64) -> Option<u64> {
    let g = gcd(a, b);
    (a / g).checked_mul(b)
}

/// Build the field for the given set of orders and install it (thread-local table + global modulus).
fn install_field(orders: &[u64]) -> Result<(), FieldErr> {
    let mut l = 8u64;
    for &m in orders {
        l = lcm_checked(l, m).ok_or_else(|| FieldErr::TooLarge("lcm overflow".into()))?;
        if l >= 1 << 50 {
            return Err(FieldErr::TooLarge(format!("L={} orders={:?}", l, orders)));
        }
    }
    // prime q = k*L + 1 just below 2^62
    let mut k = ((1u64 << 62) - 2) / l;
    let mut qv = 0;
    let mut tries = 0;
    while k > 0 && tries < 200000 {
        let cand = k * l + 1;
        if is_prime_u64(cand) {
            qv = cand;
            break;
        }
        k -= 1;
        tries += 1;
    }
    if qv == 0 {
        return Err(FieldErr::NoPrime);
    }
    // element of exact order L
    let pf = prime_factors(l);
    let mut g = 0;
    for h in 2..2000u64 {
        let cand = powmod(h, (qv - 1) / l, qv);
        if pf.iter().all(|p| powmod(cand, l / p, qv) != 1) {
            g = cand;
            break;
        }
    }
    if g == 0 {
        return Err(FieldErr::NoPrime);
    }
    Q.store(qv, Ordering::SeqCst);
    let inv2 = invmod(2, qv);
    // table
    let mut table: Vec<(f64, u64)> = vec![];
    for &m in orders.iter().chain([4u64, 8].iter()) {
        let step = powmod(g, l / m, qv);
        let step_inv = invmod(step, qv);
        let mut up = 1u64;
        let mut dn = 1u64;
        for a in 0..=(m / 2) {
            let (c, _s) = crate::dd::cos_sin_2pi(a, m);
            let img = mulmod((up + dn) % qv, inv2, qv);
            table.push((c.to_f64(), img));
            up = mulmod(up, step, qv);
            dn = mulmod(dn, step_inv, qv);
        }
    }
    table.sort_by(|a, b| a.0.partial_cmp(&b.0).unwrap());
    // merge duplicates, detect ambiguity
    let mut merged: Vec<(f64, u64)> = Vec::with_capacity(table.len());
    for e in table {
        if let Some(last) = merged.last() {
            let d = (e.0 - last.0).abs();
            if last.1 == e.1 {
                if d <= 100.0 * TOL {
                    continue; // same element listed through another order
                }
            } else if d <= 100.0 * TOL {
                return Err(FieldErr::Ambiguous(format!(
                    "cos values {:e} and {:e} have different images; orders={:?}",
                    last.0, e.0, orders
                )));
            }
        }
        merged.push(e);
    }
    CTX.with(|c| {
        let mut c = c.borrow_mut();
        c.q = qv;
        c.l = l;
        c.g = g;
        c.orders = orders.to_vec();
        c.table = merged;
        c.misses.clear();
    });
    Ok(())
}

/// Simplest fraction (smallest denominator) in the closed interval [lo, hi], 0 <= lo <= hi.
/// Continued-fraction recursion: if an integer lies in the interval take the smallest one, otherwise
/// x = f + 1/y with y in [1/(hi-f), 1/(lo-f)].
fn simplest_between(lo: f64, hi: f64, max_den: u64) -> Option<(u64, u64)> {
    fn rec(lo: f64, hi: f64, depth: u32, max_den: f64) -> Option<(f64, f64)> {
        if depth > 64 || !(lo <= hi) {
            return None;
        }
        let fl = lo.floor();
        if fl == lo {
            return Some((fl, 1.0));
        }
        if fl + 1.0 <= hi {
            return Some((fl + 1.0, 1.0));
        }
        let (p, q) = rec(1.0 / (hi - fl), 1.0 / (lo - fl), depth + 1, max_den)?;
        // x = fl + q/p
        let num = fl * p + q;
        if p > max_den || num > 1e18 {
            return None;
        }
        Some((num, p))
    }
    let (n, d) = rec(lo, hi, 0, max_den as f64)?;
    Some((n as u64, d as u64))
}

/// Identify v = cos(2 pi a/m) with the smallest m; returns m
fn identify(v: f64) -> Option<u64> {
    if !(v.abs() <= 1.0 + TOL) {
        return None;
    }
    let two_pi = 2.0 * std::f64::consts::PI;
    let hi_v = (v + TOL).min(1.0);
    let lo_v = (v - TOL).max(-1.0);
    // t = acos(v)/2pi in [0, 1/2]; cos decreasing => t_lo from hi_v
    let t_lo = (hi_v.acos() / two_pi - 1e-18).max(0.0);
    let t_hi = (lo_v.acos() / two_pi + 1e-18).min(0.5);
    let (a, m) = simplest_between(t_lo, t_hi, MAX_ORDER)?;
    // verify in double-double
    let (c, _) = crate::dd::cos_sin_2pi(a, m);
    if (c.to_f64() - v).abs() <= TOL * 1.01 {
        Some(m)
    } else {
        None
    }
}

#[derive(Clone, Debug, Default)]
pub struct FieldInfo {
    pub q: u64,
    pub l: u64,
    pub orders: Vec<u64>,
    pub rounds: usize,
    pub lookups: u64,
    pub rational_hits: u64,
    pub int_conversions: u64,
    pub table_len: usize,
    pub rounded_rational_consts: usize,
}

/// Run `build` (which plans/constructs transforms over `Fp`) until every constant it converts is in the table.
/// `seed_orders`: orders to start from (the length n itself so that the reference kernel exists).
pub fn with_field<R>(seed_orders: &[u64], mut build: impl FnMut() -> R) -> Result<(R, FieldInfo), FieldErr> {
    CTX.with(|c| c.borrow_mut().rational_consts.clear());
    let mut orders: Vec<u64> = vec![4, 8];
    for &m in seed_orders {
        if m >= 1 && !orders.contains(&m) {
            orders.push(m);
        }
    }
    for round in 0..16 {
        orders.sort();
        orders.dedup();
        install_field(&orders)?;
        CTX.with(|c| {
            let mut c = c.borrow_mut();
            c.lookups = 0;
            c.rational_hits = 0;
            c.int_conversions = 0;
        });
        let r = build();
        let misses: Vec<f64> = CTX.with(|c| std::mem::take(&mut c.borrow_mut().misses));
        if misses.is_empty() {
            let info = CTX.with(|c| {
                let c = c.borrow();
                FieldInfo {
                    q: c.q,
                    l: c.l,
                    orders: c.orders.clone(),
                    rounds: round + 1,
                    lookups: c.lookups,
                    rational_hits: c.rational_hits,
                    int_conversions: c.int_conversions,
                    table_len: c.table.len(),
                    rounded_rational_consts: c.rational_consts.len(),
                }
            });
            return Ok((r, info));
        }
        drop(r);
        // identify well-conditioned constants first
        let mid: Vec<f64> = misses.iter().copied().filter(|v| v.abs() <= 0.9).collect();
        let pick = if mid.is_empty() { misses } else { mid };
        let mut added = false;
        let mut seen: Vec<u64> = vec![];
        for v in pick {
            // cheap dedupe on bit pattern
            let b = v.to_bits();
            if seen.contains(&b) {
                continue;
            }
            if seen.len() < 64 {
                seen.push(b);
            }
            match identify(v) {
                Some(m) => {
                    if !orders.contains(&m) {
                        orders.push(m);
                        added = true;
                    }
                }
                None => {
                    if near_simple_rational(v) {
                        CTX.with(|c| {
                            let mut c = c.borrow_mut();
                            if !c.rational_consts.contains(&v.to_bits()) {
                                c.rational_consts.push(v.to_bits());
                            }
                        });
                        added = true;
                    } else {
                        return Err(FieldErr::Unidentifiable(v));
                    }
                }
            }
        }
        if !added {
            // a constant was identified with an order already present but still missed the table: inconsistent
            return Err(FieldErr::Ambiguous("constant identified but not found".into()));
        }
    }
    Err(FieldErr::Rounds)
}

pub fn non_ring_ops() -> u64 {
    NON_RING_OPS.load(Ordering::SeqCst)
}

// ---------------------------------------------------------------------------------------------
// reference kernel in the field

pub type CF = rustfft::num_complex::Complex<Fp>;

/// Image of exp(-2 pi i e / L') for the current field, where `n | L`: returns W = (cos, -sin) of angle 2 pi / n (forward)
pub fn kernel(n: u64, inverse: bool) -> Option<CF> {
    let (l, g, qv) = CTX.with(|c| {
        let c = c.borrow();
        (c.l, c.g, c.q)
    });
    if n == 0 || l % n != 0 {
        return None;
    }
    let e = l / n;
    let up = powmod(g, e, qv);
    let dn = invmod(up, qv);
    let i_img = powmod(g, l / 4, qv);
    let inv2 = invmod(2, qv);
    let c = mulmod((up + dn) % qv, inv2, qv);
    // sin = (up - dn) / (2 I)
    let diff = (up + qv - dn) % qv;
    let s = mulmod(diff, invmod(mulmod(2, i_img, qv), qv), qv);
    let s = Fp(s);
    Some(CF::new(Fp(c), if inverse { s } else { -s }))
}

pub fn cpow(mut b: CF, mut e: u64) -> CF {
    let mut r = CF::new(Fp(1), Fp(0));
    while e > 0 {
        if e & 1 == 1 {
            r = r * b;
        }
        b = b * b;
        e >>= 1;
    }
    r
}

/// Exact DFT by the definition, O(n^2)
pub fn naive_dft(x: &[CF], inverse: bool) -> Option<Vec<CF>> {
    let n = x.len();
    let w = kernel(n as u64, inverse)?;
    let mut pw = Vec::with_capacity(n);
    let mut cur = CF::new(Fp(1), Fp(0));
    for _ in 0..n {
        pw.push(cur);
        cur = cur * w;
    }
    let mut out = Vec::with_capacity(n);
    for k in 0..n {
        let mut acc = CF::new(Fp(0), Fp(0));
        let mut e = 0usize;
        for j in 0..n {
            acc = acc + x[j] * pw[e];
            e += k;
            if e >= n {
                e -= n;
            }
        }
        out.push(acc);
    }
    Some(out)
}

/// Does `got` equal DFT(x)? Decided by evaluating the polynomial sum_k (got[k] - X[k]) z^k at a random point z of F_q
/// (Schwartz-Zippel: a wrong vector passes with probability <= n/q < 2^-40), in O(n log n):
/// sum_k X[k] z^k = sum_j x[j] * ((z^n - 1) / (z W^j - 1)).
pub fn poly_check(x: &[CF], got: &[CF], inverse: bool, z: Fp) -> Option<bool> {
    let n = x.len();
    let w = kernel(n as u64, inverse)?;
    let zc = CF::new(z, Fp(0));
    // lhs
    let mut lhs = CF::new(Fp(0), Fp(0));
    let mut zp = CF::new(Fp(1), Fp(0));
    for k in 0..n {
        lhs = lhs + got[k] * zp;
        zp = zp * zc;
    }
    let zn_minus_1 = zp - CF::new(Fp(1), Fp(0)); // zp == z^n now
    // rhs
    let mut rhs = CF::new(Fp(0), Fp(0));
    let mut wj = CF::new(Fp(1), Fp(0));
    for j in 0..n {
        let d = zc * wj - CF::new(Fp(1), Fp(0));
        let nrm = d.re * d.re + d.im * d.im;
        if nrm.0 == 0 {
            return None; // unlucky evaluation point
        }
        let dinv = CF::new(d.re, -d.im) * CF::new(nrm.inv(), Fp(0));
        rhs = rhs + x[j] * zn_minus_1 * dinv;
        wj = wj * w;
    }
    Some(lhs == rhs)
}

pub fn selftest() -> Result<(), String> {
    // field axioms + kernel identities on a fixed field
    install_field(&[7, 28, 12, 48, 5, 20]).map_err(|e| e.reason())?;
    let mut rng = crate::rng::Rng::new(5);
    for _ in 0..200 {
        let a = Fp::new(rng.next_u64());
        let b = Fp::new(rng.next_u64());
        let c = Fp::new(rng.next_u64());
        if (a + b) * c != a * c + b * c || a - a != Fp(0) || (b.0 != 0 && (a / b) * b != a) || -(-a) != a {
            return Err("Fp field axioms violated".into());
        }
    }
    for n in [1u64, 2, 3, 4, 5, 6, 7, 8, 12, 14, 20, 28] {
        for inv in [false, true] {
            let w = kernel(n, inv).ok_or("kernel missing")?;
            if cpow(w, n) != CF::new(Fp(1), Fp(0)) {
                return Err(format!("W^n != 1 for n={}", n));
            }
            for p in prime_factors(n) {
                if cpow(w, n / p) == CF::new(Fp(1), Fp(0)) {
                    return Err(format!("W has smaller order than n={}", n));
                }
            }
        }
        // table lookups of the f64 twiddles give the same kernel
        let ang = -2.0 * std::f64::consts::PI / n as f64;
        let c = <Fp as FromPrimitive>::from_f64(ang.cos()).unwrap();
        let s = <Fp as FromPrimitive>::from_f64(ang.sin()).unwrap();
        let w = kernel(n, false).unwrap();
        let missed = CTX.with(|c| !c.borrow().misses.is_empty());
        if n >= 3 && missed && (n == 7 || n == 12 || n == 5) {
            return Err(format!("table lookup missed for n={}", n));
        }
        if !missed && (CF::new(c, s) != w) {
            return Err(format!("lookup image differs from kernel for n={}", n));
        }
        CTX.with(|c| c.borrow_mut().misses.clear());
    }
    // poly_check agrees with naive_dft, and rejects a corrupted vector
    for n in [1usize, 2, 5, 7, 12, 28] {
        let x: Vec<CF> = (0..n)
            .map(|_| CF::new(Fp::new(rng.next_u64()), Fp::new(rng.next_u64())))
            .collect();
        let y = naive_dft(&x, false).ok_or("naive kernel missing")?;
        let z = Fp::new(rng.next_u64());
        if poly_check(&x, &y, false, z) != Some(true) {
            return Err(format!("poly_check rejects the true DFT at n={}", n));
        }
        let mut bad = y.clone();
        bad[n / 2] = bad[n / 2] + CF::new(Fp(1), Fp(0));
        if poly_check(&x, &bad, false, z) != Some(false) {
            return Err(format!("poly_check accepts a corrupted DFT at n={}", n));
        }
    }
    // identification of constants
    for (a, m) in [(1u64, 7u64), (3, 28), (5, 1024), (1, 65536), (12345, 65537), (1, 3)] {
        let (c, _) = crate::dd::cos_sin_2pi(a, m);
        let g = gcd(a, m);
        match identify(c.to_f64()) {
            Some(found) if found == m / g => {}
            other => return Err(format!("identify(cos 2pi {}/{}) = {:?}", a, m, other)),
        }
    }
    Ok(())
}
