//! Counters that a worker accumulates and reports in its `summary` line. The driver merges summaries of all
//! shards by type: integers are summed (keys starting with `max_` are maximised), string lists are united,
//! `{ratio, at}` objects keep the larger ratio, `samples` lists are concatenated (capped by the driver).

use crate::common::Worst;
use crate::out::J;
use std::collections::{BTreeMap, BTreeSet};

#[derive(Default)]
pub struct Stats {
    pub ints: BTreeMap<String, i64>,
    pub sets: BTreeMap<String, BTreeSet<String>>,
    pub worsts: BTreeMap<String, Worst>,
    pub samples: Vec<J>,
    pub distinct: BTreeSet<String>,
    pub violations: usize,
    pub notes: usize,
}

pub const MAX_VIOLATIONS_PER_SHARD: usize = 25;

impl Stats {
    pub fn new() -> Self {
        Self::default()
    }
    pub fn add(&mut self, key: &str, n: usize) {
        *self.ints.entry(key.to_string()).or_insert(0) += n as i64;
    }
    pub fn inc(&mut self, key: &str) {
        self.add(key, 1);
    }
    pub fn max(&mut self, key: &str, v: usize) {
        debug_assert!(key.starts_with("max_"));
        let e = self.ints.entry(key.to_string()).or_insert(0);
        if (v as i64) > *e {
            *e = v as i64;
        }
    }
    pub fn set(&mut self, key: &str, item: &str) {
        self.sets
            .entry(key.to_string())
            .or_default()
            .insert(item.to_string());
    }
    pub fn worst(&mut self, key: &str, ratio: f64, at: impl FnOnce() -> String) {
        self.worsts.entry(key.to_string()).or_default().see(ratio, at);
    }
    /// Record a distinct non-trivial case (shards own disjoint cases, so the driver sums the counts)
    pub fn set_distinct(&mut self, key: &str) {
        self.distinct.insert(key.to_string());
    }
    pub fn sample(&mut self, cap: usize, j: impl FnOnce() -> J) {
        if self.samples.len() < cap {
            self.samples.push(j());
        }
    }
    /// Report a violation (emitted immediately). `case` must be enough to replay it.
    pub fn violation(&mut self, property: &str, monitor: &str, case: &str, detail: Vec<(&str, J)>) {
        self.violations += 1;
        if self.violations <= MAX_VIOLATIONS_PER_SHARD {
            let mut f = vec![
                ("property", J::s(property)),
                ("monitor", J::s(monitor)),
                ("case", J::s(case)),
            ];
            f.extend(detail);
            crate::out::emit("violation", f);
        }
    }
    pub fn note(&mut self, text: &str) {
        self.notes += 1;
        if self.notes <= 20 {
            crate::out::emit("note", vec![("text", J::s(text))]);
        }
    }
    pub fn emit_summary(&self) {
        let mut f: Vec<(String, J)> = vec![];
        f.push(("kind".into(), J::s("summary")));
        f.push(("violations".into(), J::u(self.violations)));
        f.push(("distinct_cases".into(), J::u(self.distinct.len())));
        for (k, v) in &self.ints {
            f.push((k.clone(), J::Int(*v)));
        }
        for (k, v) in &self.sets {
            f.push((k.clone(), J::Arr(v.iter().map(|s| J::s(s)).collect())));
        }
        for (k, w) in &self.worsts {
            f.push((
                k.clone(),
                J::obj(vec![("ratio", J::Num(w.ratio)), ("at", J::s(&w.at))]),
            ));
        }
        f.push(("samples".into(), J::Arr(self.samples.clone())));
        let line = J::Obj(f).to_string();
        println!("@@ {}", line);
    }
}
