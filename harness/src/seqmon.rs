//! Monitor C10: a planner's answers do not depend on what it planned before.
//! Request sequences (bounded-exhaustive over a pool of related (length, direction) pairs, plus random sequences over
//! divisor lattices) are fed to two fresh planners; the planners are dropped; every returned transform is then checked
//! against the double-double reference (C01 at 4B per element on impulses, C02 at B on a dense vector), against its
//! same-planner partner of the other direction (C06) and bitwise against the twin planner's transform.

use crate::common::*;
use crate::dd::Cdd;
use crate::inputs::{self, InClass};
use crate::out::J;
use crate::refdft::{impulse_dft, Dir, RefFft};
use crate::rng::{mix, Rng};
use crate::stats::Stats;
use crate::Args;
use rustfft::Fft;
use std::collections::HashMap;
use std::panic::{catch_unwind, AssertUnwindSafe};
use std::sync::Arc;

type Req = (usize, Dir);

const POOL_QUICK: [Req; 17] = [
    // 83: Bluestein base under every planner (82 = 2*41); 192 is the AVX planner's Bluestein inner length for it
    (83, Dir::Fwd),
    (83, Dir::Inv),
    (192, Dir::Inv),
    (8, Dir::Fwd),
    (64, Dir::Fwd),
    (72, Dir::Fwd),
    (576, Dir::Fwd),
    (576, Dir::Inv),
    (577, Dir::Fwd),
    (577, Dir::Inv),
    (1152, Dir::Fwd),
    (1153, Dir::Fwd),
    (4608, Dir::Inv),
    (59, Dir::Fwd),
    (118, Dir::Fwd),
    (128, Dir::Inv),
    (384, Dir::Fwd),
];
const POOL_EXTRA: [Req; 6] = [
    (1152, Dir::Inv),
    (2304, Dir::Fwd),
    (36, Dir::Fwd),
    (1154, Dir::Inv),
    (9, Dir::Inv),
    (4608, Dir::Fwd),
];

struct RefData<T> {
    inputs: Vec<(String, Vec<C<T>>, bool)>, // label, data, is_impulse
    refs: [Vec<Vec<Cdd>>; 2],               // [dir][input]
}

struct Ctx<T> {
    refs: HashMap<usize, Arc<RefData<T>>>,
    fresh_reports: HashMap<(u8, usize, u8), String>,
}

fn ref_data<T: Elem>(ctx: &mut Ctx<T>, n: usize, seed: u64) -> Arc<RefData<T>> {
    if let Some(r) = ctx.refs.get(&n) {
        return Arc::clone(r);
    }
    if ctx.refs.len() > 300 {
        ctx.refs.clear();
    }
    let mut rng = Rng::new(mix(&[seed, n as u64, 0x10]));
    let reff = RefFft::new(n);
    let mut inputs_v = vec![];
    if n > 0 {
        let mut js = vec![1 % n, n / 2, n - 1];
        js.sort();
        js.dedup();
        for j in js {
            inputs_v.push((format!("impulse{}", j), inputs::impulse::<T>(n, j), true));
        }
        inputs_v.push(("uniform".to_string(), inputs::gen::<T>(InClass::Uniform, n, &mut rng), false));
    }
    let mut refs = [vec![], vec![]];
    for (di, dir) in DIRS.iter().enumerate() {
        for (label, data, imp) in &inputs_v {
            let r = if *imp {
                let j: usize = label[7..].parse().unwrap();
                impulse_dft(n, j, *dir, &reff.tw)
            } else {
                reff.transform(&widen(data), *dir)
            };
            refs[di].push(r);
        }
    }
    let rd = Arc::new(RefData { inputs: inputs_v, refs });
    ctx.refs.insert(n, Arc::clone(&rd));
    rd
}

fn run_sequence<T: Elem>(st: &mut Stats, ctx: &mut Ctx<T>, pk: PK, seq: &[Req], seed: u64, seq_id: &str) {
    let mut p1 = match AnyPlanner::<T>::new(pk) {
        Some(p) => p,
        None => return,
    };
    let mut p2 = AnyPlanner::<T>::new(pk).unwrap();
    let seq_text: Vec<String> = seq.iter().map(|(n, d)| format!("{}{}", n, if *d == Dir::Fwd { "f" } else { "i" })).collect();
    let case_base = format!("planner={} type={} seq=[{}] {}", pk.name(), T::NAME, seq_text.join(","), seq_id);
    crate::guard::set_case(&format!("C10 {}", case_base));
    let mut got: Vec<(Arc<dyn Fft<T>>, Arc<dyn Fft<T>>)> = vec![];
    for (i, &(n, d)) in seq.iter().enumerate() {
        // what would a fresh planner plan? (coverage: how often does history change the plan)
        let key = (pk as u8, n, d as u8);
        if !ctx.fresh_reports.contains_key(&key) {
            let mut f = AnyPlanner::<T>::new(pk).unwrap();
            let t = f.report(n, d).0;
            ctx.fresh_reports.insert(key, t);
        }
        let here = catch_unwind(AssertUnwindSafe(|| p1.report(n, d).0)).unwrap_or_default();
        if &here != ctx.fresh_reports.get(&key).unwrap() {
            st.inc("requests_whose_plan_differs_from_a_fresh_planners");
        }
        let r1 = catch_unwind(AssertUnwindSafe(|| p1.plan(n, d)));
        let r2 = catch_unwind(AssertUnwindSafe(|| if i % 2 == 0 { p2.plan(n, d) } else { p2.plan_named(n, d) }));
        st.inc("planning_requests");
        match (r1, r2) {
            (Ok(a), Ok(b)) => got.push((a, b)),
            (e1, e2) => {
                let msg = e1.err().or(e2.err()).map(panic_message).unwrap_or_default();
                st.violation("C10", "c10", &format!("{} request#{}", case_base, i), vec![("what", J::s("planner panicked during the request sequence")), ("panic", J::s(&msg))]);
                return;
            }
        }
    }
    // transforms must stay valid after their planners are gone
    drop(p1);
    drop(p2);
    st.inc("sequences_run");
    st.inc("evaluations");
    for (i, ((f1, f2), &(n, d))) in got.iter().zip(seq.iter()).enumerate() {
        let case = format!("{} request#{}=({},{})", case_base, i, n, dname(d));
        if f1.len() != n || f1.fft_direction() != fdir(d) || f2.len() != n || f2.fft_direction() != fdir(d) {
            st.violation("C10", "c10", &case, vec![("what", J::s("returned transform has the wrong length or direction"))]);
            continue;
        }
        if n == 0 {
            continue;
        }
        let rd = ref_data::<T>(ctx, n, seed);
        let b = bound_b::<T>(n);
        let di = if d == Dir::Fwd { 0 } else { 1 };
        let entry = ALL_ENTRIES[(i + n) % 4];
        for (ii, (label, x, imp)) in rd.inputs.iter().enumerate() {
            let o1 = invoke(&**f1, x, &plain_shape(&**f1, entry, n));
            let o2 = invoke(&**f2, x, &plain_shape(&**f2, entry, n));
            st.add("evaluations", 2);
            st.inc("transforms_checked");
            if o1.outcome.is_err() || o2.outcome.is_err() {
                st.violation("C10", "c10", &format!("{} input={}", case, label), vec![("what", J::s("well-shaped call panicked on a transform returned mid-sequence"))]);
                continue;
            }
            if !bits_equal(&o1.result, &o2.result) {
                st.violation("C10", "c10", &format!("{} input={}", case, label), vec![("what", J::s("two planners fed the same request sequence returned transforms with different output bits"))]);
            }
            st.inc("twin_bitwise_comparisons");
            let e = compare(&o1.result, &rd.refs[di][ii]);
            let (ratio, what) = if *imp {
                (e.max_abs / (4.0 * b), "C01: matrix entry off by more than 4B")
            } else {
                (e.rel_l2 / b, "C02: relative L2 error above 16 eps log2(2n)")
            };
            st.worst(&format!("worst_ratio_{}", T::NAME), ratio, || format!("{} input={}", case, label));
            if !(ratio <= 1.0) {
                st.violation("C10", "c10", &format!("{} input={} entry={}", case, label, entry.name()), vec![
                    ("what", J::s(what)), ("ratio", J::Num(ratio)), ("rel_l2", J::Num(e.rel_l2)), ("max_abs", J::Num(e.max_abs))]);
            }
        }
        // C06 with the same-planner partner of the other direction, if the sequence asked for it
        if let Some(pi) = seq.iter().position(|&(m, dd)| m == n && dd != d) {
            if pi > i {
                let (fwd, inv) = if d == Dir::Fwd { (&got[i].0, &got[pi].0) } else { (&got[pi].0, &got[i].0) };
                let x = &rd.inputs.last().unwrap().1;
                let y = invoke(&**fwd, x, &plain_shape(&**fwd, Entry::Inplace, n));
                let z = invoke(&**inv, &y.result, &plain_shape(&**inv, Entry::OutOfPlace, n));
                st.add("evaluations", 2);
                st.inc("partner_round_trips");
                let mut num = 0.0;
                let mut den = 0.0;
                for (a, bb) in z.result.iter().zip(x.iter()) {
                    let dr = a.re.to_f64() - n as f64 * bb.re.to_f64();
                    let dim = a.im.to_f64() - n as f64 * bb.im.to_f64();
                    num += dr * dr + dim * dim;
                    den += (n as f64 * bb.re.to_f64()).powi(2) + (n as f64 * bb.im.to_f64()).powi(2);
                }
                let rel = (num / den.max(f64::MIN_POSITIVE)).sqrt();
                if !(rel <= 2.5 * b) {
                    st.violation("C10", "c10", &format!("{} partner=request#{}", case, pi), vec![
                        ("what", J::s("C06: forward/inverse pair from one planner does not round-trip to n*x")), ("rel_err", J::Num(rel))]);
                }
            }
        }
    }
    if seq.len() >= 3 {
        st.sample(3, || J::obj(vec![("case", J::s(&case_base))]));
    }
}

fn enumerate(pool: &[Req], max_len: usize) -> Vec<Vec<Req>> {
    let mut out = vec![];
    let mut cur: Vec<Vec<Req>> = vec![vec![]];
    for _ in 0..max_len {
        let mut next = vec![];
        for s in &cur {
            for r in pool {
                let mut t = s.clone();
                t.push(*r);
                next.push(t);
            }
        }
        out.extend(next.iter().cloned());
        cur = next;
    }
    out
}

fn random_sequence(rng: &mut Rng) -> Vec<Req> {
    // 59: Bluestein for scalar/SSE; 83, 107: Bluestein for every planner incl. AVX; 37, 127, 251, 1009: Rader
    let primes = [1usize, 11, 13, 37, 59, 83, 107, 127, 251, 1009];
    let p = *rng.pick(&primes);
    let limit = 8192usize;
    // exponents of the base
    let (mut a, mut b, mut c, mut d);
    loop {
        a = rng.range(0, 10);
        b = rng.range(0, 5);
        c = rng.range(0, 2);
        d = rng.range(0, 2);
        let base = (1usize << a) * 3usize.pow(b as u32) * 5usize.pow(c as u32) * 7usize.pow(d as u32) * p;
        if base <= limit && base >= 2 {
            break;
        }
    }
    let len = rng.range(2, 12);
    let mut seq = vec![];
    for _ in 0..len {
        let n = (1usize << rng.range(0, a)) * 3usize.pow(rng.range(0, b) as u32) * 5usize.pow(rng.range(0, c) as u32) * 7usize.pow(rng.range(0, d) as u32)
            * if rng.chance(0.6) { p } else { 1 };
        // occasionally ask for a neighbour that needs Rader/Bluestein over this lattice (n+1 prime?) or repeat a previous request
        let n = if rng.chance(0.15) && crate::cases::is_prime(n + 1) { n + 1 } else { n };
        let dir = if rng.chance(0.5) { Dir::Fwd } else { Dir::Inv };
        if !seq.is_empty() && rng.chance(0.15) {
            let prev: Req = *rng.pick(&seq);
            seq.push((prev.0, if rng.chance(0.5) { prev.1 } else { dir }));
        } else if !seq.is_empty() && rng.chance(0.2) {
            // the largest prime factor of an earlier request (a Rader/Bluestein base the planner has already met inside a plan)
            let prev: Req = *rng.pick(&seq);
            let lp = crate::cases::largest_prime_factor(prev.0.max(2));
            seq.push((lp.max(2), dir));
        } else if rng.chance(0.15) {
            // a product of two "hard" primes
            let hard = [11usize, 13, 17, 37, 41, 43, 53, 59, 61, 83];
            seq.push((*rng.pick(&hard) * *rng.pick(&hard), dir));
        } else {
            seq.push((n, dir));
        }
    }
    seq
}

fn run_type<T: Elem>(st: &mut Stats, args: &Args) {
    let t = args.tier_thorough;
    let mut ctx = Ctx::<T> { refs: HashMap::new(), fresh_reports: HashMap::new() };
    let mut pool: Vec<Req> = POOL_QUICK.to_vec();
    if t {
        pool.extend_from_slice(&POOL_EXTRA);
    }
    let max_len = args.get_usize("max-len").unwrap_or(3);
    let seqs = enumerate(&pool, max_len);
    st.max("max_exhaustive_sequences_total", seqs.len());
    let planners: Vec<PK> = match args.get("planners") {
        Some(p) => p.split(',').filter_map(PK::parse).collect(),
        None => ALL_PK.to_vec(),
    };
    if let Some(only) = args.get("only-seq") {
        // replay: "577f,576i,1153f"
        let seq: Vec<Req> = only
            .split(',')
            .filter_map(|tok| {
                let (num, d) = tok.split_at(tok.len() - 1);
                Some((num.parse().ok()?, if d == "f" { Dir::Fwd } else { Dir::Inv }))
            })
            .collect();
        for &pk in &planners {
            run_sequence::<T>(st, &mut ctx, pk, &seq, args.seed, "replay");
        }
        return;
    }
    for (i, seq) in seqs.iter().enumerate() {
        if !crate::cases::mine(i, args.shard) {
            continue;
        }
        for &pk in &planners {
            run_sequence::<T>(st, &mut ctx, pk, seq, args.seed, &format!("exh#{}", i));
        }
        st.set_distinct(&format!("{}|exh{}", T::NAME, i));
    }
    // random sequences over divisor lattices
    let n_random = args.get_usize("random").unwrap_or(if t { 60000 } else { 1200 });
    let mut rng = Rng::new(mix(&[args.seed, 0xC10]));
    for i in 0..n_random {
        let seq = random_sequence(&mut rng);
        if !crate::cases::mine(i, args.shard) {
            continue;
        }
        for &pk in &planners {
            run_sequence::<T>(st, &mut ctx, pk, &seq, args.seed, &format!("rnd#{}", i));
        }
        st.inc("random_sequences");
        st.max("max_random_sequence_len", seq.len());
        st.set_distinct(&format!("{}|rnd{}", T::NAME, i));
    }
}

pub fn run(args: &Args) {
    let mut st = Stats::new();
    let types = args.get("types").unwrap_or("f32,f64").to_string();
    if types.contains("f32") {
        run_type::<f32>(&mut st, args);
    }
    if types.contains("f64") {
        run_type::<f64>(&mut st, args);
    }
    st.emit_summary();
}
