//! Monitor `fpx` (C01 exact half, C14): transforms planned for the prime-field element type `Fp` must equal the DFT
//! exactly. Also provides `exact_check`, reused by the constructor-tree monitor (C12).

use crate::cases;
use crate::common::*;
use crate::fp::{self, Fp, CF};
use crate::out::J;
use crate::refdft::Dir;
use crate::rng::{mix, Rng};
use crate::stats::Stats;
use crate::Args;
use rustfft::{Fft, FftPlanner, FftPlannerAvx, FftPlannerNeon, FftPlannerScalar, FftPlannerSse, FftPlannerWasmSimd};
use std::sync::Arc;

pub struct ExactCfg {
    pub basis_max: usize,
    pub n_impulses: usize,
    pub n_random: usize,
    pub entries: Vec<Entry>,
}

fn one() -> CF {
    CF::new(Fp(1), Fp(0))
}
fn zero() -> CF {
    CF::new(Fp(0), Fp(0))
}

/// Exact comparison of one transform against the DFT in the currently installed field.
/// Returns the number of exact comparisons made.
pub fn exact_check(
    st: &mut Stats,
    prop: &str,
    monitor: &str,
    case_base: &str,
    fft: &dyn Fft<Fp>,
    dir: Dir,
    cfg: &ExactCfg,
    rng: &mut Rng,
) -> usize {
    let n = fft.len();
    let inverse = dir == Dir::Inv;
    let mut done = 0;
    if n == 0 {
        for &entry in &cfg.entries {
            let r = invoke(fft, &[], &plain_shape(fft, entry, 0));
            st.inc("evaluations");
            if let Err(msg) = r.outcome {
                st.violation(prop, monitor, &format!("{} entry={}", case_base, entry.name()),
                    vec![("what", J::s("length-0 transform rejected an empty buffer")), ("panic", J::s(&msg))]);
            }
        }
        return 0;
    }
    let w = match fp::kernel(n as u64, inverse) {
        Some(w) => w,
        None => {
            st.inc("inconclusive_no_kernel");
            return 0;
        }
    };
    // impulse indices
    let mut js: Vec<usize> = if n <= cfg.basis_max {
        (0..n).collect()
    } else {
        let mut v = vec![0, 1, n / 2, n - 1];
        for _ in 0..cfg.n_impulses.saturating_sub(4) {
            v.push(rng.range(0, n - 1));
        }
        v
    };
    js.sort();
    js.dedup();
    let randoms: Vec<Vec<CF>> = (0..cfg.n_random)
        .map(|_| {
            (0..n)
                .map(|_| CF::new(Fp::new(rng.next_u64()), Fp::new(rng.next_u64())))
                .collect()
        })
        .collect();
    for &entry in &cfg.entries {
        for &j in &js {
            let mut x = vec![zero(); n];
            x[j] = one();
            let case = format!("{} entry={} input=impulse{}", case_base, entry.name(), j);
            let r = invoke(fft, &x, &plain_shape(fft, entry, n));
            st.inc("evaluations");
            st.inc(&format!("calls_{}", entry.name()));
            if let Err(msg) = &r.outcome {
                st.violation(prop, monitor, &case, vec![("what", J::s("well-shaped call panicked")), ("panic", J::s(msg))]);
                continue;
            }
            // expected column: W^(jk)
            let wj = fp::cpow(w, j as u64);
            let mut cur = one();
            let mut bad: Option<usize> = None;
            for k in 0..n {
                if r.result[k] != cur {
                    bad = Some(k);
                    break;
                }
                cur = cur * wj;
            }
            st.inc("impulses_checked");
            st.add("exact_entries_compared", n);
            done += 1;
            if let Some(k) = bad {
                st.violation(prop, monitor, &case, vec![
                    ("what", J::s("matrix entry differs from W^(jk) exactly (finite field)")),
                    ("row_k", J::u(k)),
                    ("got", J::s(&format!("{:?}", r.result[k]))),
                ]);
            }
        }
        for (ri, x) in randoms.iter().enumerate() {
            let case = format!("{} entry={} input=random{}", case_base, entry.name(), ri);
            let r = invoke(fft, x, &plain_shape(fft, entry, n));
            st.inc("evaluations");
            st.inc(&format!("calls_{}", entry.name()));
            if let Err(msg) = &r.outcome {
                st.violation(prop, monitor, &case, vec![("what", J::s("well-shaped call panicked")), ("panic", J::s(msg))]);
                continue;
            }
            let ok = if n <= 192 {
                let y = fp::naive_dft(x, inverse).unwrap();
                st.add("exact_entries_compared", n);
                Some(y == r.result)
            } else {
                let mut verdict = Some(true);
                for _ in 0..2 {
                    let z = Fp::new(rng.next_u64());
                    match fp::poly_check(x, &r.result, inverse, z) {
                        Some(true) => {}
                        Some(false) => {
                            verdict = Some(false);
                            break;
                        }
                        None => verdict = None,
                    }
                }
                st.inc("poly_identity_checks");
                verdict
            };
            st.inc("dense_vectors_checked");
            done += 1;
            match ok {
                Some(true) => {}
                Some(false) => st.violation(prop, monitor, &case, vec![(
                    "what",
                    J::s("output differs from the DFT of a random vector exactly (finite field)"),
                )]),
                None => st.inc("inconclusive_unlucky_point"),
            }
        }
    }
    done
}

struct Planned {
    ffts: Vec<(String, Dir, Arc<dyn Fft<Fp>>)>,
    simd_ok: Vec<&'static str>,
}

fn plan_all(n: usize) -> Planned {
    let mut ffts = vec![];
    let mut simd_ok = vec![];
    for dir in DIRS {
        let mut p = FftPlanner::<Fp>::new();
        ffts.push(("auto".to_string(), dir, p.plan_fft(n, fdir(dir))));
        let mut p = FftPlannerScalar::<Fp>::new();
        ffts.push(("scalar".to_string(), dir, p.plan_fft(n, fdir(dir))));
    }
    if FftPlannerAvx::<Fp>::new().is_ok() {
        simd_ok.push("avx");
    }
    if FftPlannerSse::<Fp>::new().is_ok() {
        simd_ok.push("sse");
    }
    if FftPlannerNeon::<Fp>::new().is_ok() {
        simd_ok.push("neon");
    }
    if FftPlannerWasmSimd::<Fp>::new().is_ok() {
        simd_ok.push("wasm_simd");
    }
    Planned { ffts, simd_ok }
}

pub fn run(args: &Args) {
    let prop = args.get("prop").unwrap_or("C01").to_string();
    let t = args.tier_thorough;
    let (dense_max, struct_max, struct_count, basis_max) = match (prop.as_str(), t) {
        ("C14", false) => (768, 8192, 40, 96),
        ("C14", true) => (2048, 16384, 150, 192),
        (_, false) => (512, 8192, 40, 96),
        (_, true) => (2048, 16384, 150, 192),
    };
    let dense_max = args.get_usize("dense-max").unwrap_or(dense_max);
    let struct_count = args.get_usize("struct-count").unwrap_or(struct_count);
    let mut st = Stats::new();
    let mut list: Vec<usize> = (0..=dense_max).collect();
    {
        let s: Vec<usize> = cases::structured(struct_max).into_iter().filter(|n| *n > dense_max).collect();
        let mut rng = Rng::new(mix(&[args.seed, 0xF9]));
        list.extend(cases::subsample(&s, struct_count, &mut rng));
        // always: 2^k, 3*2^k, 9*2^k, 5*2^k, 7*2^k (deep radix chains of the portable planner)
        let mut p2 = 1usize;
        while p2 <= struct_max {
            for m in [1usize, 3, 5, 7, 9] {
                if p2 * m > dense_max && p2 * m <= struct_max {
                    list.push(p2 * m);
                }
            }
            p2 *= 2;
        }
        list.sort();
        list.dedup();
    }
    if let Some(n) = args.get_usize("only-n") {
        list = vec![n];
    }
    let cfg = ExactCfg {
        basis_max,
        n_impulses: 8,
        n_random: 2,
        entries: ALL_ENTRIES.to_vec(),
    };
    for (i, &n) in list.iter().enumerate() {
        if args.get("only-n").is_none() && !cases::mine(i, args.shard) {
            continue;
        }
        crate::guard::set_case(&format!("fpx type=Fp n={} seed={}", n, args.seed));
        let before = fp::non_ring_ops();
        let built = std::panic::catch_unwind(std::panic::AssertUnwindSafe(|| fp::with_field(&[n.max(1) as u64], || plan_all(n))));
        let (planned, info) = match built {
            Ok(Ok(x)) => x,
            Ok(Err(e)) => {
                st.inc("lengths_inconclusive");
                st.set("inconclusive_reasons", &e.reason().split('(').next().unwrap_or("?").to_string());
                continue;
            }
            Err(p) => {
                let msg = panic_message(p);
                st.violation(&prop, "fpx", &format!("planner=auto|scalar type=Fp n={}", n), vec![
                    ("what", J::s("planning for a custom element type panicked")),
                    ("panic", J::s(&msg)),
                ]);
                continue;
            }
        };
        st.inc("lengths_decided_exactly");
        st.add("from_f64_lookups", info.lookups as usize);
        st.add("from_int_conversions", info.int_conversions as usize);
        st.max("max_twiddle_orders", info.orders.len());
        st.max("max_discovery_rounds", info.rounds);
        st.add("constants_converted_as_rounded_rationals", info.rounded_rational_consts);
        if !planned.simd_ok.is_empty() {
            st.violation(&prop, "fpx", &format!("type=Fp n={}", n), vec![
                ("what", J::s("a SIMD planner returned Ok for a custom element type")),
                ("planners", J::s(&planned.simd_ok.join(","))),
            ]);
        }
        st.inc("simd_planner_decline_checks");
        let mut rng = Rng::new(mix(&[args.seed, n as u64, 0xE8AC7]));
        for (pname, dir, fft) in &planned.ffts {
            let case_base = format!("planner={} type=Fp dir={} n={}", pname, dname(*dir), n);
            if fft.len() != n {
                st.violation(&prop, "fpx", &case_base, vec![("what", J::s("planned transform reports wrong len"))]);
                continue;
            }
            exact_check(&mut st, &prop, "fpx", &case_base, &**fft, *dir, &cfg, &mut rng);
            st.set_distinct(&format!("{}|{}", pname, n));
        }
        if fp::non_ring_ops() != before {
            st.violation(&prop, "fpx", &format!("type=Fp n={}", n), vec![(
                "what",
                J::s("a non-ring operation (abs/signum/rem/...) was invoked on the element type"),
            )]);
        }
        if n >= 16 { st.sample(2, || {
            J::obj(vec![
                ("case", J::s(&format!("type=Fp n={} planners=auto,scalar both directions", n))),
                ("field_modulus_q", J::s(&info.q.to_string())),
                ("L", J::s(&info.l.to_string())),
                ("twiddle_orders", J::s(&format!("{:?}", info.orders))),
                ("table_len", J::u(info.table_len)),
            ])
        }); }
        st.inc("lengths");
    }
    st.emit_summary();
}
