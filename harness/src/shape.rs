//! Call-shape monitors on guard-paged buffers:
//!   C03  memory safety of every call shape (faults are observed by the signal handler / sanitizer / Miri; in the
//!        debug-assertion build the crate's own index assertions are observed as panics)
//!   C07  k chunks == k independent transforms (numerical + NaN isolation)
//!   C08  scratch is pure workspace (exact advertised length suffices; output bits independent of scratch length and of
//!        the initial contents of scratch and output)
//!   C09  ill-shaped calls panic, well-shaped calls never do and transform every chunk
//!   C15  the immutable entry point never modifies its input (read-only pages + bit comparison)
//! All of them iterate planner x type x direction x n and observe calls at the public API boundary.

use crate::cases;
use crate::common::*;
use crate::guard::Place;
use crate::inputs::{self, InClass};
use crate::out::J;
use crate::refdft::Dir;
use crate::rng::{mix, Rng};
use crate::stats::Stats;
use crate::Args;
use rustfft::Fft;
use std::sync::Arc;

pub const VALIDATION_MESSAGES: [&str; 4] = [
    "Provided FFT buffer was too small",
    "Input FFT buffer must be a multiple of FFT length",
    "Not enough scratch space was provided",
    "Provided FFT input buffer and output buffer must have the same length",
];

/// Panic texts that can only come from the crate's debug assertions guarding unchecked accesses (array_utils.rs,
/// avx_vector.rs, sse_vector.rs) or from std's unsafe-precondition checks: in a release build these would have been
/// out-of-bounds accesses.
pub fn is_unchecked_access_assert(msg: &str) -> bool {
    msg.contains("unsafe precondition")
        || (msg.starts_with("assertion failed:")
            && (msg.contains("idx <") || msg.contains(">= index") || msg.contains("index +")))
}

pub static MINIMAL_ILL: std::sync::atomic::AtomicBool = std::sync::atomic::AtomicBool::new(false);

pub struct ShapeCfg {
    pub prop: String,
    pub lengths: Vec<usize>,
    pub planners: Vec<PK>,
    pub types: String,
    pub thorough: bool,
    pub seed: u64,
    /// also run the monitor on instances assembled from the public constructors (one kind per length)
    pub ctor_instances: bool,
}

pub fn lengths_from_args(args: &Args, dense_max: usize, struct_max: usize, struct_count: usize, tag: u64) -> Vec<usize> {
    if let Some(n) = args.get_usize("only-n") {
        return vec![n];
    }
    if let Some(ns) = args.get("ns") {
        let all: Vec<usize> = ns.split(',').filter_map(|s| s.parse().ok()).collect();
        return all
            .into_iter()
            .enumerate()
            .filter(|(i, _)| cases::mine(*i, args.shard))
            .map(|(_, n)| n)
            .collect();
    }
    let dense_max = args.get_usize("dense-max").unwrap_or(dense_max);
    let struct_max = args.get_usize("struct-max").unwrap_or(struct_max);
    let struct_count = args.get_usize("struct-count").unwrap_or(struct_count);
    let dense_min = args.get_usize("dense-min").unwrap_or(1);
    let mut v: Vec<usize> = (dense_min..=dense_max).collect();
    let s: Vec<usize> = cases::structured(struct_max).into_iter().filter(|n| *n > dense_max).collect();
    let mut rng = Rng::new(mix(&[args.seed, tag]));
    v.extend(cases::subsample(&s, struct_count, &mut rng));
    v.into_iter()
        .enumerate()
        .filter(|(i, _)| cases::mine(*i, args.shard))
        .map(|(_, n)| n)
        .collect()
}

fn planners_from_args(args: &Args) -> Vec<PK> {
    match args.get("planners") {
        Some(p) => p.split(',').filter_map(PK::parse).collect(),
        None => ALL_PK.to_vec(),
    }
}

/// Iterate planner x direction x n for one element type, handing each planned transform to `f`
fn for_each_fft<T: Elem>(
    cfg: &ShapeCfg,
    st: &mut Stats,
    mut f: impl FnMut(&mut Stats, &str, &Arc<dyn Fft<T>>, usize, &mut Rng),
) {
    if !cfg.types.contains(T::NAME) {
        return;
    }
    for &n in &cfg.lengths {
        for &pk in &cfg.planners {
            for dir in DIRS {
                let mut planner = match AnyPlanner::<T>::new(pk) {
                    Some(p) => p,
                    None => {
                        st.inc("planner_unavailable");
                        continue;
                    }
                };
                let case_base = format!("planner={} type={} dir={} n={}", pk.name(), T::NAME, dname(dir), n);
                crate::guard::set_case(&format!("{} {} seed={}", cfg.prop, case_base, cfg.seed));
                if std::env::var_os("FFTMON_PROGRESS").is_some() {
                    eprintln!("[progress] {}", case_base);
                }
                let (text, _) = planner.report(n, dir);
                for k in kinds_in(&text) {
                    st.set("kinds", &format!("{}:{}", pk.name(), k));
                }
                let fft = planner.plan(n, dir);
                drop(planner);
                st.inc("transforms_planned");
                let mut rng = Rng::new(mix(&[cfg.seed, n as u64, pk as u64, dir as u64, T::EPS.to_bits()]));
                f(st, &case_base, &fft, n, &mut rng);
                st.set_distinct(&format!("{}|{}|{}|{}", pk.name(), T::NAME, dname(dir), n));
            }
        }
        // transforms assembled from the public constructors are transforms too: a rotating constructor kind per length
        if cfg.ctor_instances && n >= 2 && n <= 4096 {
            let kind = n % 6;
            let pk = cfg.planners[n % cfg.planners.len()];
            let dir = if n % 2 == 0 { Dir::Fwd } else { Dir::Inv };
            if let Some(mut planner) = AnyPlanner::<T>::new(pk) {
                let built = std::panic::catch_unwind(std::panic::AssertUnwindSafe(|| crate::conc::constructed::<T>(kind, n, dir, &mut planner)));
                if let Ok((text, fft)) = built {
                    let m = fft.len();
                    let case_base = format!("planner={} type={} dir={} ctor={} n={}", pk.name(), T::NAME, dname(dir), text, m);
                    crate::guard::set_case(&format!("{} {} seed={}", cfg.prop, case_base, cfg.seed));
                    let mut rng = Rng::new(mix(&[cfg.seed, n as u64, 0xC7]));
                    st.inc("constructed_instances");
                    f(st, &case_base, &fft, m, &mut rng);
                    st.set_distinct(&format!("ctor|{}|{}", T::NAME, text));
                }
            }
        }
    }
}

fn zero<T: Elem>() -> C<T> {
    C::new(T::from_f64r(0.0), T::from_f64r(0.0))
}
fn nanc<T: Elem>() -> C<T> {
    C::new(T::nan(), T::nan())
}

fn count_call(st: &mut Stats, entry: Entry, k: usize) {
    st.inc("evaluations");
    st.inc(&format!("calls_{}", entry.name()));
    st.inc(if k % 2 == 0 { "calls_even_k" } else { "calls_odd_k" });
}

/// relative L2 difference between two result vectors (in f64)
fn rel_diff<T: Elem>(a: &[C<T>], b: &[C<T>]) -> f64 {
    let mut num = 0.0;
    let mut den = 0.0;
    for (x, y) in a.iter().zip(b.iter()) {
        let dr = x.re.to_f64() - y.re.to_f64();
        let di = x.im.to_f64() - y.im.to_f64();
        num += dr * dr + di * di;
        den += y.re.to_f64() * y.re.to_f64() + y.im.to_f64() * y.im.to_f64();
    }
    if !(num.is_finite()) {
        return f64::INFINITY;
    }
    if den == 0.0 {
        if num == 0.0 {
            0.0
        } else {
            f64::INFINITY
        }
    } else {
        (num / den).sqrt()
    }
}

// ---------------------------------------------------------------------------------------------
// C07

pub fn c07_fft<T: Elem>(st: &mut Stats, prop: &str, case_base: &str, fft: &Arc<dyn Fft<T>>, n: usize, rng: &mut Rng, thorough: bool) {
    if n == 0 {
        return;
    }
    let kmax = if n > 65536 { 2 } else if n > 4096 { 3 } else { 8 };
    let tol = 2.5 * bound_b::<T>(n);
    for entry in ALL_ENTRIES {
        for k in 1..=kmax {
            if !thorough && n > 256 && (k == 6 || k == 7) {
                continue;
            }
            let data = inputs::gen::<T>(InClass::Uniform, k * n, rng);
            let case = format!("{} entry={} k={}", case_base, entry.name(), k);
            let mut shape = plain_shape(&**fft, entry, k * n);
            if (k + n) % 2 == 0 {
                shape.place = Place::Head;
            }
            // scratch length of the multi-chunk call rotates over: exactly advertised, twice advertised (+1), one short of k times
            // advertised, as long as the data (what callers who size scratch "like the buffer" pass)
            let adv = shape.scratch_len;
            shape.scratch_len = match (k + n + entry as usize) % 4 {
                0 => adv,
                1 => 2 * adv + 1,
                2 => (adv * k).saturating_sub(1).max(adv),
                _ => (k * n).max(adv),
            };
            let full = invoke(&**fft, &data, &shape);
            count_call(st, entry, k);
            if let Err(msg) = &full.outcome {
                st.violation(prop, "c07", &case, vec![("what", J::s("well-shaped multi-chunk call panicked")), ("panic", J::s(msg))]);
                continue;
            }
            // each chunk vs the same chunk alone
            for i in 0..k {
                let chunk = &data[i * n..(i + 1) * n];
                let single = invoke(&**fft, chunk, &plain_shape(&**fft, entry, n));
                count_call(st, entry, 1);
                if single.outcome.is_err() {
                    st.violation(prop, "c07", &format!("{} chunk={}", case, i), vec![("what", J::s("single-chunk call panicked"))]);
                    continue;
                }
                let got = &full.result[i * n..(i + 1) * n];
                st.inc("chunk_comparisons");
                if bits_equal(got, &single.result) {
                    st.inc("chunks_bitwise_equal_to_single");
                } else {
                    let d = rel_diff(got, &single.result);
                    st.inc("chunks_equal_within_tolerance");
                    st.worst("worst_multi_vs_single", d / tol, || format!("{} chunk={}", case, i));
                    if !(d <= tol) {
                        st.violation(prop, "c07", &format!("{} chunk={}", case, i), vec![
                            ("what", J::s("chunk of a multi-chunk call differs from the same chunk transformed alone")),
                            ("rel_l2_diff", J::Num(d)),
                            ("tolerance", J::Num(tol)),
                        ]);
                    }
                }
            }
            // isolation: NaN in every other chunk must not change a single bit of chunk i
            if k >= 2 {
                let mut idxs = vec![0, k - 1];
                if thorough && k > 2 {
                    idxs.push(k / 2);
                }
                idxs.dedup();
                for i in idxs {
                    let mut poisoned = vec![nanc::<T>(); k * n];
                    poisoned[i * n..(i + 1) * n].copy_from_slice(&data[i * n..(i + 1) * n]);
                    let r = invoke(&**fft, &poisoned, &shape);
                    count_call(st, entry, k);
                    st.inc("nan_isolation_checks");
                    if r.outcome.is_err() {
                        st.violation(prop, "c07", &format!("{} isolate={}", case, i), vec![("what", J::s("call panicked when other chunks hold NaN"))]);
                        continue;
                    }
                    let got = &r.result[i * n..(i + 1) * n];
                    if !bits_equal(got, &full.result[i * n..(i + 1) * n]) {
                        st.violation(prop, "c07", &format!("{} isolate={}", case, i), vec![
                            ("what", J::s("result of a chunk changed when only the other chunks' contents changed (NaN isolation)")),
                            ("finite", J::Bool(all_finite(got))),
                        ]);
                    }
                }
            }
            if n >= 16 && k >= 3 {
                st.sample(2, || J::obj(vec![("case", J::s(&case)), ("chunks", J::u(k))]));
            }
        }
    }
}

// ---------------------------------------------------------------------------------------------
// C08

pub fn c08_fft<T: Elem>(st: &mut Stats, prop: &str, case_base: &str, fft: &Arc<dyn Fft<T>>, n: usize, rng: &mut Rng, thorough: bool) {
    if n == 0 {
        return;
    }
    let ks: &[usize] = if n > 65536 { &[1] } else { &[1, 2] };
    let z = zero::<T>();
    let nan = nanc::<T>();
    let pinf = C::new(T::inf(), T::inf());
    let ninf = C::new(-T::inf(), -T::inf());
    let huge = C::new(T::huge(), -T::huge());
    for entry in SCRATCH_ENTRIES {
        let adv = entry.adv_scratch(&**fft);
        for &k in ks {
            let data = inputs::gen::<T>(InClass::Uniform, k * n, rng);
            let case = format!("{} entry={} k={} adv_scratch={}", case_base, entry.name(), k, adv);
            let base_shape = CallShape {
                entry,
                out_len: k * n,
                scratch_len: adv,
                scratch_fill: z,
                out_fill: z,
                place: Place::Tail,
                protect_input: false,
            };
            let base = invoke(&**fft, &data, &base_shape);
            count_call(st, entry, k);
            if let Err(msg) = &base.outcome {
                st.violation(prop, "c08", &case, vec![
                    ("what", J::s("call with scratch of exactly the advertised length panicked")),
                    ("panic", J::s(msg)),
                ]);
                continue;
            }
            if !all_finite(&base.result) {
                st.violation(prop, "c08", &case, vec![("what", J::s("non-finite output from finite input with zeroed scratch"))]);
                continue;
            }
            // (scratch_len, scratch_fill, out_fill, place)
            let mut variants: Vec<(usize, C<T>, C<T>, Place, &str)> = vec![
                (adv, nan, z, Place::Tail, "scratch=NaN"),
                (adv, nan, nan, Place::Head, "scratch=NaN,out=NaN"),
                (adv, pinf, z, Place::Head, "scratch=+Inf"),
                (adv, huge, ninf, Place::Tail, "scratch=huge,out=-Inf"),
                (adv + 1, nan, nan, Place::Tail, "len+1,NaN"),
                (adv + 17, nan, z, Place::Head, "len+17,scratch=NaN"),
                (2 * adv, nan, pinf, Place::Tail, "len*2,NaN,out=+Inf"),
                (adv + 1, z, z, Place::Head, "len+1,zero"),
            ];
            if thorough {
                variants.push((adv, ninf, z, Place::Tail, "scratch=-Inf"));
                variants.push((adv, z, nan, Place::Tail, "out=NaN"));
                variants.push((adv, z, huge, Place::Head, "out=huge"));
                variants.push((2 * adv + 3, z, z, Place::Tail, "len*2+3,zero"));
                variants.push((adv + 17, huge, nan, Place::Tail, "len+17,huge,out=NaN"));
            }
            for (slen, sfill, ofill, place, label) in variants {
                if entry == Entry::Inplace && label.starts_with("out=") {
                    continue;
                }
                let shape = CallShape {
                    entry,
                    out_len: k * n,
                    scratch_len: slen,
                    scratch_fill: sfill,
                    out_fill: ofill,
                    place,
                    protect_input: false,
                };
                let r = invoke(&**fft, &data, &shape);
                count_call(st, entry, k);
                st.inc("taint_runs");
                st.inc(&format!("taint_{}", if slen == adv { "exact_len" } else { "longer_len" }));
                let vcase = format!("{} variant={}", case, label);
                if let Err(msg) = &r.outcome {
                    st.violation(prop, "c08", &vcase, vec![("what", J::s("call with sufficient scratch panicked")), ("panic", J::s(msg))]);
                    continue;
                }
                st.inc("bitwise_comparisons");
                if !bits_equal(&r.result, &base.result) {
                    let fin = all_finite(&r.result);
                    st.violation(prop, "c08", &vcase, vec![
                        ("what", J::s("output bits depend on scratch length or on the initial contents of scratch/output")),
                        ("output_finite", J::Bool(fin)),
                        ("rel_diff", J::Num(rel_diff(&r.result, &base.result))),
                    ]);
                }
            }
            if n >= 16 {
                st.sample(2, || J::obj(vec![("case", J::s(&case)), ("variants", J::s("scratch/out fill in {0,NaN,+-Inf,huge}, scratch len in {adv,+1,+17,x2}"))]));
            }
        }
    }
}

// ---------------------------------------------------------------------------------------------
// C09 (and the shape list reused by C03 / C15)

#[derive(Clone, Debug)]
pub struct ShapeCase {
    pub entry: Entry,
    pub data_len: usize,
    pub out_len: usize,
    pub scratch_len: usize,
    pub well_shaped: bool,
    pub why: &'static str,
}

pub fn shape_matrix<T: Elem>(fft: &dyn Fft<T>, n: usize, thorough: bool) -> Vec<ShapeCase> {
    let mut v = vec![];
    if n == 0 {
        return v;
    }
    let kk = 3usize;
    let mut data_lens: Vec<usize> = vec![1, n.saturating_sub(1), n, n + 1, 2 * n - 1, 2 * n, 2 * n + 1, kk * n - 1, kk * n, kk * n + 1];
    if thorough {
        data_lens.extend_from_slice(&[5 * n, 8 * n, 8 * n - 1, n / 2, 4 * n + n / 2]);
    }
    data_lens.retain(|l| *l > 0 && *l <= (1 << 22));
    data_lens.sort();
    data_lens.dedup();
    for entry in ALL_ENTRIES {
        let adv = entry.adv_scratch(fft);
        let mut scratch_lens = vec![adv, adv + 1];
        if adv > 0 {
            scratch_lens.push(0);
            scratch_lens.push(adv - 1);
        }
        scratch_lens.sort();
        scratch_lens.dedup();
        for &dl in &data_lens {
            let data_ok = dl % n == 0;
            if entry == Entry::Process {
                v.push(ShapeCase { entry, data_len: dl, out_len: dl, scratch_len: 0, well_shaped: data_ok, why: if data_ok { "ok" } else { "data not a multiple of n" } });
                continue;
            }
            let out_lens: Vec<usize> = if entry == Entry::Inplace {
                vec![dl]
            } else {
                let mut o = vec![dl, dl + 1, dl + n];
                if dl > 1 {
                    o.push(dl - 1);
                }
                if dl > n {
                    o.push(dl - n);
                }
                o
            };
            for &ol in &out_lens {
                for &sl in &scratch_lens {
                    // keep the matrix affordable: vary scratch only with matching out_len, vary out_len only with exact scratch
                    if ol != dl && sl != adv {
                        continue;
                    }
                    let out_ok = ol == dl;
                    let scratch_ok = sl >= adv;
                    let well = data_ok && out_ok && scratch_ok;
                    let why = if well {
                        "ok"
                    } else if !data_ok {
                        "data not a multiple of n"
                    } else if !out_ok {
                        "input and output lengths differ"
                    } else {
                        "scratch shorter than advertised"
                    };
                    v.push(ShapeCase { entry, data_len: dl, out_len: ol, scratch_len: sl, well_shaped: well, why });
                }
            }
        }
    }
    v
}

pub fn c09_fft<T: Elem>(st: &mut Stats, prop: &str, case_base: &str, fft: &Arc<dyn Fft<T>>, n: usize, rng: &mut Rng, thorough: bool) {
    if n == 0 {
        // domain note (DESIGN.md C09): "multiple of n" is degenerate for n = 0; observed behaviour is recorded, not judged
        let r = invoke(&**fft, &[zero::<T>(); 3], &plain_shape(&**fft, Entry::Inplace, 3));
        st.inc("n0_calls_recorded");
        st.set("n0_behaviour", if r.outcome.is_ok() { "returns silently for a non-empty buffer" } else { "panics for a non-empty buffer" });
        return;
    }
    let tol = 2.5 * bound_b::<T>(n);
    let z = zero::<T>();
    // single-chunk reference results are computed lazily per chunk content; we use one base chunk repeated with a twist
    for sc in shape_matrix::<T>(&**fft, n, thorough) {
        let data = inputs::gen::<T>(InClass::Uniform, sc.data_len, rng);
        let shape = CallShape {
            entry: sc.entry,
            out_len: sc.out_len,
            scratch_len: sc.scratch_len,
            scratch_fill: z,
            out_fill: z,
            place: if (sc.data_len + sc.scratch_len) % 2 == 0 { Place::Tail } else { Place::Head },
            protect_input: false,
        };
        let case = format!(
            "{} entry={} data_len={} out_len={} scratch_len={} ({})",
            case_base, sc.entry.name(), sc.data_len, sc.out_len, sc.scratch_len, sc.why
        );
        let r = invoke(&**fft, &data, &shape);
        count_call(st, sc.entry, sc.data_len / n);
        if sc.well_shaped {
            st.inc("must_not_panic_calls");
            match &r.outcome {
                Err(msg) => {
                    st.violation(prop, "c09", &case, vec![("what", J::s("well-shaped call panicked")), ("panic", J::s(msg))]);
                }
                Ok(()) => {
                    // every chunk transformed: compare against the chunk alone through the in-place entry
                    let k = sc.data_len / n;
                    for i in 0..k {
                        let chunk = &data[i * n..(i + 1) * n];
                        let single = invoke(&**fft, chunk, &plain_shape(&**fft, Entry::Inplace, n));
                        st.inc("evaluations");
                        if single.outcome.is_err() {
                            st.violation(prop, "c09", &case, vec![("what", J::s("single-chunk reference call panicked"))]);
                            break;
                        }
                        let d = rel_diff(&r.result[i * n..(i + 1) * n], &single.result);
                        st.inc("chunks_checked_transformed");
                        if !(d <= tol) {
                            st.violation(prop, "c09", &format!("{} chunk={}", case, i), vec![
                                ("what", J::s("well-shaped call returned but left a chunk untransformed / wrong")),
                                ("rel_l2_diff", J::Num(d)),
                            ]);
                            break;
                        }
                    }
                }
            }
        } else {
            st.inc("must_panic_calls");
            st.inc(&format!("must_panic_{}", sc.why.replace(' ', "_")));
            match &r.outcome {
                Ok(()) => {
                    st.violation(prop, "c09", &case, vec![("what", J::s("ill-shaped call returned normally instead of panicking"))]);
                }
                Err(msg) => {
                    let short: String = msg.chars().take_while(|c| !c.is_ascii_digit()).take(70).collect();
                    st.set("panic_messages", short.trim());
                }
            }
        }
    }
    if n >= 16 {
        st.sample(2, || J::obj(vec![("case", J::s(case_base)), ("shapes", J::s("data {1,n-1,n,n+1,2n-1,2n,2n+1,3n-1,3n,3n+1} x out {=,+-1,+-n} x scratch {0,adv-1,adv,adv+1}"))]));
    }
}

// ---------------------------------------------------------------------------------------------
// C15

pub fn c15_fft<T: Elem>(st: &mut Stats, prop: &str, case_base: &str, fft: &Arc<dyn Fft<T>>, n: usize, rng: &mut Rng, thorough: bool, light: bool) {
    if n == 0 {
        return;
    }
    let z = zero::<T>();
    let adv = fft.get_immutable_scratch_len();
    let kmax = if light { 2 } else if n > 65536 { 2 } else if n > 4096 { 3 } else { 8 };
    // (data_len, out_len, scratch_len)
    let mut shapes: Vec<(usize, usize, usize, bool)> = vec![];
    for k in 1..=kmax {
        shapes.push((k * n, k * n, adv, true));
    }
    shapes.push((n, n, adv + 5, true));
    // ill-shaped: must panic, input still untouched
    shapes.push((2 * n + 1, 2 * n + 1, adv, false));
    shapes.push((3 * n - 1, 3 * n - 1, adv, false));
    shapes.push((2 * n, 2 * n + 1, adv, false));
    shapes.push((2 * n, n, adv, false));
    if adv > 0 {
        shapes.push((2 * n, 2 * n, adv - 1, false));
        shapes.push((n, n, 0, false));
    }
    if thorough {
        shapes.push((n + 1, n + 1, adv, false));
        shapes.push((kmax * n + n / 2 + 1, kmax * n + n / 2 + 1, adv, false));
    }
    for (dl, ol, sl, well) in shapes {
        if dl == 0 || (!well && dl % n == 0 && ol == dl && sl >= adv) {
            continue;
        }
        let data = inputs::distinct::<T>(dl, rng);
        for place in [Place::Tail, Place::Head] {
            let shape = CallShape { entry: Entry::Immut, out_len: ol, scratch_len: sl, scratch_fill: z, out_fill: z, place, protect_input: true };
            let case = format!("{} entry=immut data_len={} out_len={} scratch_len={} place={:?}", case_base, dl, ol, sl, place);
            crate::guard::set_case(&format!("{} {} (input pages read-only)", prop, case));
            let r = invoke(&**fft, &data, &shape);
            count_call(st, Entry::Immut, dl / n);
            st.add("input_bytes_protected_and_compared", dl * std::mem::size_of::<C<T>>());
            if r.outcome.is_err() {
                st.inc("panicking_calls_checked");
            }
            if well && r.outcome.is_err() {
                st.inc("well_shaped_call_panicked_reported_by_C09");
            }
            if !bits_equal(&r.input_after, &data) {
                let first = r.input_after.iter().zip(data.iter()).position(|(a, b)| a.re.bits() != b.re.bits() || a.im.bits() != b.im.bits());
                st.violation(prop, "c15", &case, vec![
                    ("what", J::s("process_immutable_with_scratch changed its input")),
                    ("first_changed_index", J::u(first.unwrap_or(0))),
                    ("call_panicked", J::Bool(r.outcome.is_err())),
                ]);
            }
            if (!thorough && n > 2048) || light {
                break; // one placement is enough for the big ones in the quick tier (and under Miri)
            }
        }
    }
    if n >= 16 {
        st.sample(2, || J::obj(vec![("case", J::s(case_base)), ("shapes", J::s("k=1..8 well-shaped + 6 ill-shaped, input on read-only pages, both guard placements"))]));
    }
}

// ---------------------------------------------------------------------------------------------
// C03

pub fn c03_fft<T: Elem>(st: &mut Stats, prop: &str, case_base: &str, fft: &Arc<dyn Fft<T>>, n: usize, rng: &mut Rng, thorough: bool, light: bool) {
    let z = zero::<T>();
    if n == 0 {
        for entry in ALL_ENTRIES {
            let r = invoke(&**fft, &[], &plain_shape(&**fft, entry, 0));
            count_call(st, entry, 0);
            if let Err(m) = &r.outcome {
                if is_unchecked_access_assert(m) {
                    st.violation(prop, "c03", &format!("{} entry={} empty", case_base, entry.name()), vec![("what", J::s("unchecked-access assertion fired")), ("panic", J::s(m))]);
                }
            }
        }
        return;
    }
    let kmax = if light { 3 } else if n > 65536 { 2 } else if n > 4096 { 3 } else { 8 };
    // well-shaped, exact advertised scratch, both placements
    for entry in ALL_ENTRIES {
        for k in 1..=kmax {
            let data = inputs::gen::<T>(InClass::Uniform, k * n, rng);
            for place in [Place::Tail, Place::Head] {
                if light && place == Place::Head {
                    continue;
                }
                let mut shape = plain_shape(&**fft, entry, k * n);
                shape.place = place;
                let case = format!("{} entry={} k={} place={:?}", case_base, entry.name(), k, place);
                crate::guard::set_case(&format!("{} {}", prop, case));
                let r = invoke(&**fft, &data, &shape);
                count_call(st, entry, k);
                st.inc("well_shaped_calls");
                st.add("bytes_under_guard", r.guarded_bytes);
                if let Err(m) = &r.outcome {
                    if is_unchecked_access_assert(m) {
                        st.violation(prop, "c03", &case, vec![
                            ("what", J::s("the crate's unchecked-access assertion fired (would be an out-of-bounds access in release)")),
                            ("panic", J::s(m)),
                        ]);
                    } else {
                        st.inc("well_shaped_call_panicked_reported_by_C09");
                    }
                }
            }
        }
    }
    // ill-shaped: must end in a panic, never a fault
    for sc in shape_matrix::<T>(&**fft, n, thorough && !light) {
        if sc.well_shaped {
            continue;
        }
        if light && !(sc.data_len == n || sc.data_len == n + 1 || (n > 1 && sc.data_len == 2 * n - 1)) {
            continue;
        }
        if MINIMAL_ILL.load(std::sync::atomic::Ordering::Relaxed) {
            // (Miri, quick tier) one ill-shaped call per reason and entry point
            let keep = (sc.data_len == n + 1 && sc.out_len == sc.data_len && sc.scratch_len == sc.entry.adv_scratch(&**fft))
                || (sc.data_len == n && (sc.out_len == n + 1 || sc.scratch_len + 1 == sc.entry.adv_scratch(&**fft)));
            if !keep {
                continue;
            }
        }
        let data = inputs::gen::<T>(InClass::Uniform, sc.data_len, rng);
        let shape = CallShape {
            entry: sc.entry,
            out_len: sc.out_len,
            scratch_len: sc.scratch_len,
            scratch_fill: z,
            out_fill: z,
            place: if (sc.data_len + sc.out_len + sc.scratch_len) % 2 == 0 { Place::Tail } else { Place::Head },
            protect_input: false,
        };
        let case = format!("{} entry={} data_len={} out_len={} scratch_len={} ({})", case_base, sc.entry.name(), sc.data_len, sc.out_len, sc.scratch_len, sc.why);
        crate::guard::set_case(&format!("{} {}", prop, case));
        let r = invoke(&**fft, &data, &shape);
        count_call(st, sc.entry, sc.data_len / n);
        st.inc("ill_shaped_calls");
        st.add("bytes_under_guard", r.guarded_bytes);
        match &r.outcome {
            Err(m) => {
                st.inc("ill_shaped_calls_panicked_cleanly");
                if is_unchecked_access_assert(m) {
                    st.violation(prop, "c03", &case, vec![
                        ("what", J::s("ill-shaped call reached an unchecked access before being rejected (debug assertion)")),
                        ("panic", J::s(m)),
                    ]);
                }
            }
            Ok(()) => st.inc("ill_shaped_call_returned_reported_by_C09"),
        }
    }
    if n >= 16 {
        st.sample(2, || J::obj(vec![("case", J::s(case_base)), ("calls", J::s("all entries x k=1..8 exact-size guard-paged buffers (both placements) + ill-shaped matrix"))]));
    }
}

// ---------------------------------------------------------------------------------------------

pub fn run(args: &Args) {
    let prop = args.get("prop").unwrap_or("C03").to_string();
    let t = args.tier_thorough;
    let light = args.flag("light");
    let (dense_max, struct_max, struct_count) = match (prop.as_str(), t) {
        ("C03", false) => (1024, 1 << 17, 60),
        ("C03", true) => (1024, 1 << 17, 80),
        ("C07", false) => (512, 1 << 15, 60),
        ("C07", true) => (1024, 1 << 16, 150),
        ("C08", false) => (1024, 1 << 16, 80),
        ("C08", true) => (2048, 1 << 17, 200),
        ("C09", false) => (512, 1 << 14, 60),
        ("C09", true) => (1024, 1 << 15, 150),
        ("C15", false) => (1024, 1 << 16, 80),
        ("C15", true) => (2048, 1 << 17, 200),
        _ => (256, 4096, 20),
    };
    let mut lengths = lengths_from_args(args, dense_max, struct_max, struct_count, 0x5a);
    if prop == "C03" && args.get("ns").is_none() && args.get("only-n").is_none() && args.get("dense-min").is_none() && args.shard.0 == 0 {
        lengths.insert(0, 0);
    }
    let cfg = ShapeCfg {
        prop: prop.clone(),
        lengths,
        planners: planners_from_args(args),
        types: args.get("types").unwrap_or("f32,f64").to_string(),
        thorough: t,
        seed: args.seed,
        ctor_instances: !args.flag("no-ctor") && !light && args.get("ns").is_none(),
    };
    let mut st = Stats::new();
    macro_rules! go {
        ($f:expr) => {{
            for_each_fft::<f32>(&cfg, &mut st, |st, cb, fft, n, rng| $f(st, &prop, cb, fft, n, rng));
            for_each_fft::<f64>(&cfg, &mut st, |st, cb, fft, n, rng| $f(st, &prop, cb, fft, n, rng));
        }};
    }
    match prop.as_str() {
        "C07" => go!(|st: &mut Stats, p: &str, cb: &str, fft: &Arc<dyn Fft<_>>, n, rng: &mut Rng| c07_fft(st, p, cb, fft, n, rng, t)),
        "C08" => go!(|st: &mut Stats, p: &str, cb: &str, fft: &Arc<dyn Fft<_>>, n, rng: &mut Rng| c08_fft(st, p, cb, fft, n, rng, t)),
        "C09" => go!(|st: &mut Stats, p: &str, cb: &str, fft: &Arc<dyn Fft<_>>, n, rng: &mut Rng| c09_fft(st, p, cb, fft, n, rng, t)),
        "C15" => go!(|st: &mut Stats, p: &str, cb: &str, fft: &Arc<dyn Fft<_>>, n, rng: &mut Rng| c15_fft(st, p, cb, fft, n, rng, t, light)),
        _ => go!(|st: &mut Stats, p: &str, cb: &str, fft: &Arc<dyn Fft<_>>, n, rng: &mut Rng| c03_fft(st, p, cb, fft, n, rng, t, light)),
    }
    st.max("max_n", cfg.lengths.iter().copied().max().unwrap_or(0));
    st.add("lengths", cfg.lengths.len());
    st.emit_summary();
}

#[allow(dead_code)]
fn _unused(_: Dir) {}
