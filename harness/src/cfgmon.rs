//! Monitors for configurations and element types:
//!   c13-table : truth table of the planner constructors under the current cargo features x (masked) CPU capabilities
//!   c14-types : custom element types (double-double, counting, 4-byte wrapper) must be declined by every SIMD planner
//!               and get a correct portable transform

use crate::cnt::{Cnt, DD16};
use crate::common::*;
use crate::dd::{Cdd, DD};
use crate::out::J;
use crate::refdft::{impulse_dft, Dir, RefFft};
use crate::rng::{mix, Rng};
use crate::stats::Stats;
use crate::Args;
use rustfft::num_traits::{FromPrimitive, Num, One, Signed, ToPrimitive, Zero};
use rustfft::{Fft, FftNum, FftPlanner, FftPlannerAvx, FftPlannerNeon, FftPlannerScalar, FftPlannerSse, FftPlannerWasmSimd};
use std::ops::{Add, Div, Mul, Neg, Rem, Sub};
use std::panic::{catch_unwind, AssertUnwindSafe};

/// real capability of the machine (or of Miri's compile-time feature model), not subject to the mask
pub fn real_features() -> (bool, bool, bool, bool) {
    #[cfg(target_arch = "x86_64")]
    {
        (
            std::is_x86_feature_detected!("sse4.1"),
            std::is_x86_feature_detected!("avx"),
            std::is_x86_feature_detected!("fma"),
            std::is_x86_feature_detected!("avx2"),
        )
    }
    #[cfg(not(target_arch = "x86_64"))]
    {
        (false, false, false, false)
    }
}

pub fn mask_name(mask: u32) -> String {
    let mut v = vec![];
    if mask & 1 != 0 {
        v.push("sse4.1");
    }
    if mask & 2 != 0 {
        v.push("avx");
    }
    if mask & 4 != 0 {
        v.push("fma");
    }
    if mask & 8 != 0 {
        v.push("avx2");
    }
    if v.is_empty() {
        "none".to_string()
    } else {
        v.join("+")
    }
}

fn table_for<T: FftNum>(st: &mut Stats, tname: &str, is_float: bool, cfgname: &str) {
    let mask = rustfft::verif_hooks::hidden_features();
    let (sse41, avx, fma, _avx2) = real_features();
    let avx_expected = is_float && cfg!(feature = "avx") && avx && fma && (mask & (2 | 4) == 0);
    let sse_expected = is_float && cfg!(feature = "sse") && sse41 && (mask & 1 == 0);
    let case = format!("config={} type={}", cfgname, tname);
    let probe = |name: &str, f: &dyn Fn() -> bool| -> Result<bool, String> {
        catch_unwind(AssertUnwindSafe(|| f())).map_err(|e| format!("{} constructor panicked: {}", name, panic_message(e)))
    };
    let checks: Vec<(&str, Result<bool, String>, bool)> = vec![
        ("FftPlannerAvx", probe("FftPlannerAvx", &|| FftPlannerAvx::<T>::new().is_ok()), avx_expected),
        ("FftPlannerSse", probe("FftPlannerSse", &|| FftPlannerSse::<T>::new().is_ok()), sse_expected),
        ("FftPlannerNeon", probe("FftPlannerNeon", &|| FftPlannerNeon::<T>::new().is_ok()), false),
        ("FftPlannerWasmSimd", probe("FftPlannerWasmSimd", &|| FftPlannerWasmSimd::<T>::new().is_ok()), false),
    ];
    for (name, got, want) in checks {
        st.inc("evaluations");
        st.inc("constructor_truth_table_entries");
        match got {
            Err(m) => st.violation("C13", "c13-table", &format!("{} planner={}", case, name), vec![("what", J::s("a dedicated SIMD planner constructor panicked")), ("panic", J::s(&m))]),
            Ok(g) => {
                st.set("truth_table", &format!("{} {}={}", case, name, if g { "Ok" } else { "Err" }));
                if g != want {
                    st.violation("C13", "c13-table", &format!("{} planner={}", case, name), vec![
                        ("what", J::s("dedicated SIMD planner returned Ok/Err contrary to the availability of its instruction set")),
                        ("got", J::s(if g { "Ok" } else { "Err" })),
                        ("expected", J::s(if want { "Ok" } else { "Err" })),
                    ]);
                }
            }
        }
    }
    // the automatic planner must construct, and pick the best available kind
    let auto = catch_unwind(AssertUnwindSafe(|| {
        let mut p = FftPlanner::<T>::new();
        let (kind, _text, _len) = p.verif_plan_report(96, rustfft::FftDirection::Forward);
        let f = p.plan_fft_forward(96);
        (kind, f.len())
    }));
    st.inc("evaluations");
    match auto {
        Err(e) => st.violation("C13", "c13-table", &format!("{} planner=FftPlanner", case), vec![("what", J::s("FftPlanner::new()/plan_fft panicked")), ("panic", J::s(&panic_message(e)))]),
        Ok((kind, len)) => {
            let want = if avx_expected { "avx" } else if sse_expected { "sse" } else { "scalar" };
            st.set("auto_planner_choice", &format!("{} -> {}", case, kind));
            if kind != want || len != 96 {
                st.violation("C13", "c13-table", &format!("{} planner=FftPlanner", case), vec![
                    ("what", J::s("automatic planner did not fall back to the best available instruction set")),
                    ("chose", J::s(kind)),
                    ("expected", J::s(want)),
                ]);
            }
        }
    }
    st.set_distinct(&case);
}

pub fn run_c13_table(args: &Args) {
    let mut st = Stats::new();
    let mask = rustfft::verif_hooks::hidden_features();
    let feats = format!("{}{}", if cfg!(feature = "avx") { "avx," } else { "" }, if cfg!(feature = "sse") { "sse" } else { "" });
    let (sse41, avx, fma, avx2) = real_features();
    let cfgname = format!(
        "features=[{}] hidden=[{}] machine=[sse4.1:{} avx:{} fma:{} avx2:{}]{}",
        feats.trim_end_matches(','), mask_name(mask), sse41, avx, fma, avx2, if cfg!(miri) { " (miri)" } else { "" }
    );
    table_for::<f32>(&mut st, "f32", true, &cfgname);
    table_for::<f64>(&mut st, "f64", true, &cfgname);
    table_for::<DD16>(&mut st, "DD16(custom)", false, &cfgname);
    table_for::<Cnt>(&mut st, "Cnt(custom)", false, &cfgname);
    st.sample(1, || J::obj(vec![("config", J::s(&cfgname))]));
    let _ = args;
    st.emit_summary();
}

// ---------------------------------------------------------------------------------------------
// C14: custom element types

/// a 4-byte element type: same size and arithmetic as f32, different TypeId
#[derive(Copy, Clone, PartialEq, PartialOrd, Debug, Default)]
#[repr(transparent)]
pub struct F32Wrap(pub f32);
macro_rules! wrap_op {
    ($tr:ident, $m:ident, $op:tt) => {
        impl $tr for F32Wrap {
            type Output = F32Wrap;
            #[inline(always)]
            fn $m(self, b: F32Wrap) -> F32Wrap {
                F32Wrap(self.0 $op b.0)
            }
        }
    };
}
wrap_op!(Add, add, +);
wrap_op!(Sub, sub, -);
wrap_op!(Mul, mul, *);
wrap_op!(Div, div, /);
wrap_op!(Rem, rem, %);
impl Neg for F32Wrap {
    type Output = F32Wrap;
    fn neg(self) -> F32Wrap {
        F32Wrap(-self.0)
    }
}
impl Zero for F32Wrap {
    fn zero() -> Self {
        F32Wrap(0.0)
    }
    fn is_zero(&self) -> bool {
        self.0 == 0.0
    }
}
impl One for F32Wrap {
    fn one() -> Self {
        F32Wrap(1.0)
    }
}
impl Num for F32Wrap {
    type FromStrRadixErr = ();
    fn from_str_radix(_: &str, _: u32) -> Result<Self, ()> {
        Err(())
    }
}
impl Signed for F32Wrap {
    fn abs(&self) -> Self {
        F32Wrap(self.0.abs())
    }
    fn abs_sub(&self, o: &Self) -> Self {
        F32Wrap((self.0 - o.0).max(0.0))
    }
    fn signum(&self) -> Self {
        F32Wrap(self.0.signum())
    }
    fn is_positive(&self) -> bool {
        self.0 > 0.0
    }
    fn is_negative(&self) -> bool {
        self.0 < 0.0
    }
}
impl ToPrimitive for F32Wrap {
    fn to_i64(&self) -> Option<i64> {
        Some(self.0 as i64)
    }
    fn to_u64(&self) -> Option<u64> {
        Some(self.0 as u64)
    }
}
impl FromPrimitive for F32Wrap {
    fn from_i64(n: i64) -> Option<Self> {
        Some(F32Wrap(n as f32))
    }
    fn from_u64(n: u64) -> Option<Self> {
        Some(F32Wrap(n as f32))
    }
    fn from_f64(v: f64) -> Option<Self> {
        Some(F32Wrap(v as f32))
    }
    fn from_f32(v: f32) -> Option<Self> {
        Some(F32Wrap(v))
    }
}

fn simd_declines<T: FftNum>(st: &mut Stats, tname: &str) {
    let mut ok = vec![];
    if FftPlannerAvx::<T>::new().is_ok() {
        ok.push("avx");
    }
    if FftPlannerSse::<T>::new().is_ok() {
        ok.push("sse");
    }
    if FftPlannerNeon::<T>::new().is_ok() {
        ok.push("neon");
    }
    if FftPlannerWasmSimd::<T>::new().is_ok() {
        ok.push("wasm_simd");
    }
    st.add("simd_planner_decline_checks", 4);
    st.add("evaluations", 4);
    if !ok.is_empty() {
        st.violation("C14", "c14-types", &format!("type={}", tname), vec![("what", J::s("a SIMD planner returned Ok for a custom element type")), ("planners", J::s(&ok.join(",")))]);
    }
}

/// Run `fft` (element type W, a wrapper around the float F) and the portable reference planner for F on the same
/// numbers: the outputs must agree bit for bit (same source code, same operations in the same order).
fn wrapper_vs_scalar<W: FftNum, F: Elem>(
    st: &mut Stats,
    tname: &str,
    n: usize,
    dir: Dir,
    wrap: impl Fn(F) -> W,
    unwrap: impl Fn(W) -> F,
    rng: &mut Rng,
) {
    for which in ["auto", "scalar"] {
        let fw: std::sync::Arc<dyn Fft<W>> = if which == "auto" { FftPlanner::<W>::new().plan_fft(n, fdir(dir)) } else { FftPlannerScalar::<W>::new().plan_fft(n, fdir(dir)) };
        let fs = FftPlannerScalar::<F>::new().plan_fft(n, fdir(dir));
        let case = format!("planner={} type={} dir={} n={}", which, tname, dname(dir), n);
        crate::guard::set_case(&format!("C14 {}", case));
        if fw.len() != n {
            st.violation("C14", "c14-types", &case, vec![("what", J::s("planned transform reports wrong len"))]);
            continue;
        }
        for entry in ALL_ENTRIES {
            for k in [1usize, 2] {
                let x: Vec<C<F>> = crate::inputs::gen::<F>(crate::inputs::InClass::Uniform, k * n, rng);
                let xw: Vec<C<W>> = x.iter().map(|c| C::new(wrap(c.re), wrap(c.im))).collect();
                let rw = invoke(&*fw, &xw, &plain_shape(&*fw, entry, k * n));
                let rs = invoke(&*fs, &x, &plain_shape(&*fs, entry, k * n));
                st.add("evaluations", 2);
                st.inc(&format!("calls_{}", entry.name()));
                if rw.outcome.is_err() || rs.outcome.is_err() {
                    st.violation("C14", "c14-types", &format!("{} entry={} k={}", case, entry.name(), k), vec![("what", J::s("well-shaped call panicked for a custom element type"))]);
                    continue;
                }
                let back: Vec<C<F>> = rw.result.iter().map(|c| C::new(unwrap(c.re), unwrap(c.im))).collect();
                st.inc("wrapper_bitwise_comparisons");
                if !bits_equal(&back, &rs.result) {
                    st.violation("C14", "c14-types", &format!("{} entry={} k={}", case, entry.name(), k), vec![
                        ("what", J::s("transform for a wrapper element type differs in bits from the portable transform of the wrapped float type (not the portable code path, or type confusion)"))]);
                }
            }
        }
        st.set_distinct(&format!("{}|{}|{}", tname, which, n));
    }
}

fn dd16_check(st: &mut Stats, n: usize, dir: Dir, rng: &mut Rng) {
    let reff = RefFft::new(n);
    let b = bound_b::<f64>(n);
    for which in ["auto", "scalar"] {
        let fft: std::sync::Arc<dyn Fft<DD16>> = if which == "auto" { FftPlanner::<DD16>::new().plan_fft(n, fdir(dir)) } else { FftPlannerScalar::<DD16>::new().plan_fft(n, fdir(dir)) };
        let case = format!("planner={} type=DD16 dir={} n={}", which, dname(dir), n);
        crate::guard::set_case(&format!("C14 {}", case));
        for entry in ALL_ENTRIES {
            // dense vector with a non-trivial low word, and two impulses
            let xs: Vec<Cdd> = (0..n).map(|_| Cdd { re: DD::from_f64(rng.sym()) + DD::from_f64(rng.sym() * 1e-17), im: DD::from_f64(rng.sym()) + DD::from_f64(rng.sym() * 1e-17) }).collect();
            let xw: Vec<C<DD16>> = xs.iter().map(|c| C::new(DD16(c.re), DD16(c.im))).collect();
            let r = invoke(&*fft, &xw, &plain_shape(&*fft, entry, n));
            st.inc("evaluations");
            st.inc(&format!("calls_{}", entry.name()));
            if r.outcome.is_err() {
                st.violation("C14", "c14-types", &format!("{} entry={}", case, entry.name()), vec![("what", J::s("well-shaped call panicked for the double-double element type"))]);
                continue;
            }
            let want = reff.transform(&xs, dir);
            let mut num = 0.0;
            let mut den = 0.0;
            for (g, w) in r.result.iter().zip(want.iter()) {
                let d = Cdd { re: g.re.0, im: g.im.0 } - *w;
                num += d.norm_sqr_f64();
                den += w.norm_sqr_f64();
            }
            let rel = (num / den.max(f64::MIN_POSITIVE)).sqrt();
            st.worst("worst_dd16_err_over_Bf64", rel / b, || format!("{} entry={}", case, entry.name()));
            st.inc("dd16_vectors_checked");
            if !(rel <= b) {
                st.violation("C14", "c14-types", &format!("{} entry={} input=dense", case, entry.name()), vec![("what", J::s("double-double transform differs from the DFT by more than the f64 bound")), ("rel_l2", J::Num(rel))]);
            }
            let j = rng.range(0, n - 1);
            let mut e = vec![C::new(DD16(DD::ZERO), DD16(DD::ZERO)); n];
            e[j] = C::new(DD16(DD::ONE), DD16(DD::ZERO));
            let r = invoke(&*fft, &e, &plain_shape(&*fft, entry, n));
            st.inc("evaluations");
            if r.outcome.is_ok() {
                let want = impulse_dft(n, j, dir, &reff.tw);
                let worst = r.result.iter().zip(want.iter()).map(|(g, w)| (Cdd { re: g.re.0, im: g.im.0 } - *w).norm_sqr_f64().sqrt()).fold(0.0, f64::max);
                st.inc("impulses_checked");
                if !(worst <= 4.0 * b) {
                    st.violation("C14", "c14-types", &format!("{} entry={} input=impulse{}", case, entry.name(), j), vec![("what", J::s("double-double transform: matrix entry off by more than 4B")), ("max_abs", J::Num(worst))]);
                }
            }
        }
        st.set_distinct(&format!("DD16|{}|{}", which, n));
    }
}

pub fn run_c14_types(args: &Args) {
    let t = args.tier_thorough;
    let mut st = Stats::new();
    simd_declines::<DD16>(&mut st, "DD16");
    simd_declines::<Cnt>(&mut st, "Cnt");
    simd_declines::<F32Wrap>(&mut st, "F32Wrap");
    let lengths = crate::shape::lengths_from_args(args, if t { 1024 } else { 384 }, if t { 16384 } else { 8192 }, if t { 60 } else { 30 }, 0xC14);
    for &n in &lengths {
        let mut rng = Rng::new(mix(&[args.seed, n as u64, 0xC14]));
        for dir in DIRS {
            if dir == Dir::Inv && n % 2 == 1 && n > 32 {
                continue;
            }
            wrapper_vs_scalar::<F32Wrap, f32>(&mut st, "F32Wrap", n, dir, F32Wrap, |w| w.0, &mut rng);
            wrapper_vs_scalar::<Cnt, f64>(&mut st, "Cnt", n, dir, Cnt, |w| w.0, &mut rng);
            dd16_check(&mut st, n, dir, &mut rng);
        }
        if n >= 16 {
            st.sample(2, || J::obj(vec![("case", J::s(&format!("n={} types=F32Wrap(4 bytes),Cnt(8 bytes),DD16(16 bytes) planners=auto,scalar", n)))]));
        }
    }
    st.add("lengths", lengths.len());
    st.emit_summary();
}
