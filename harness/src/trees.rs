//! Monitor C12: transforms assembled from the public algorithm constructors, within each constructor's documented
//! preconditions, must construct without panicking and satisfy C01 (exactly in a finite field; 4B in floats), C03, C07,
//! C08, C09 for the composite length.

use crate::cases::is_prime;
use crate::common::*;
use crate::fp::{self, Fp};
use crate::fpx::{exact_check, ExactCfg};
use crate::inputs::{self, InClass};
use crate::out::J;
use crate::refdft::{impulse_dft, Dir, RefFft};
use crate::rng::{mix, Rng};
use crate::stats::Stats;
use crate::Args;
use rustfft::algorithm::butterflies::*;
use rustfft::algorithm::*;
use rustfft::{Fft, FftNum};
use std::panic::{catch_unwind, AssertUnwindSafe};
use std::sync::Arc;

#[derive(Clone, Debug, PartialEq)]
pub enum Node {
    Butterfly(usize),
    Dft(usize),
    Radix4New(usize),
    Radix3New(usize),
    Planned(PK, usize),
    MixedRadix(Box<Node>, Box<Node>),
    MixedRadixSmall(Box<Node>, Box<Node>),
    GoodThomas(Box<Node>, Box<Node>),
    GoodThomasSmall(Box<Node>, Box<Node>),
    Radix4Base(u32, Box<Node>),
    Radix3Base(u32, Box<Node>),
    Rader(Box<Node>),
    Bluestein(usize, Box<Node>),
}

pub const BUTTERFLY_LENS: [usize; 21] = [1, 2, 3, 4, 5, 6, 7, 8, 9, 11, 12, 13, 16, 17, 19, 23, 24, 27, 29, 31, 32];

impl Node {
    pub fn len(&self) -> usize {
        match self {
            Node::Butterfly(n) | Node::Dft(n) | Node::Radix4New(n) | Node::Radix3New(n) | Node::Planned(_, n) => *n,
            Node::MixedRadix(a, b) | Node::MixedRadixSmall(a, b) | Node::GoodThomas(a, b) | Node::GoodThomasSmall(a, b) => a.len() * b.len(),
            Node::Radix4Base(k, b) => b.len() << (2 * k),
            Node::Radix3Base(k, b) => b.len() * 3usize.pow(*k),
            Node::Rader(b) => b.len() + 1,
            Node::Bluestein(n, _) => *n,
        }
    }
    pub fn depth(&self) -> usize {
        match self {
            Node::Butterfly(_) | Node::Dft(_) | Node::Radix4New(_) | Node::Radix3New(_) | Node::Planned(..) => 0,
            Node::MixedRadix(a, b) | Node::MixedRadixSmall(a, b) | Node::GoodThomas(a, b) | Node::GoodThomasSmall(a, b) => 1 + a.depth().max(b.depth()),
            Node::Radix4Base(_, b) | Node::Radix3Base(_, b) | Node::Rader(b) | Node::Bluestein(_, b) => 1 + b.depth(),
        }
    }
    pub fn describe(&self) -> String {
        match self {
            Node::Butterfly(n) => format!("Butterfly{}", n),
            Node::Dft(n) => format!("Dft({})", n),
            Node::Radix4New(n) => format!("Radix4::new({})", n),
            Node::Radix3New(n) => format!("Radix3::new({})", n),
            Node::Planned(pk, n) => format!("planned[{}]({})", pk.name(), n),
            Node::MixedRadix(a, b) => format!("MixedRadix({},{})", a.describe(), b.describe()),
            Node::MixedRadixSmall(a, b) => format!("MixedRadixSmall({},{})", a.describe(), b.describe()),
            Node::GoodThomas(a, b) => format!("GoodThomasAlgorithm({},{})", a.describe(), b.describe()),
            Node::GoodThomasSmall(a, b) => format!("GoodThomasAlgorithmSmall({},{})", a.describe(), b.describe()),
            Node::Radix4Base(k, b) => format!("Radix4::new_with_base({},{})", k, b.describe()),
            Node::Radix3Base(k, b) => format!("Radix3::new_with_base({},{})", k, b.describe()),
            Node::Rader(b) => format!("RadersAlgorithm({})", b.describe()),
            Node::Bluestein(n, b) => format!("BluesteinsAlgorithm({},{})", n, b.describe()),
        }
    }
    /// constructor name of the root and kind of its first child (coverage matrix)
    pub fn shape_key(&self) -> String {
        fn kind(n: &Node) -> &'static str {
            match n {
                Node::Butterfly(_) => "Butterfly",
                Node::Dft(_) => "Dft",
                Node::Radix4New(_) => "Radix4::new",
                Node::Radix3New(_) => "Radix3::new",
                Node::Planned(..) => "planned",
                Node::MixedRadix(..) => "MixedRadix",
                Node::MixedRadixSmall(..) => "MixedRadixSmall",
                Node::GoodThomas(..) => "GoodThomas",
                Node::GoodThomasSmall(..) => "GoodThomasSmall",
                Node::Radix4Base(..) => "Radix4::with_base",
                Node::Radix3Base(..) => "Radix3::with_base",
                Node::Rader(_) => "Rader",
                Node::Bluestein(..) => "Bluestein",
            }
        }
        match self {
            Node::MixedRadix(a, b) | Node::MixedRadixSmall(a, b) | Node::GoodThomas(a, b) | Node::GoodThomasSmall(a, b) => format!("{}<{},{}>", kind(self), kind(a), kind(b)),
            Node::Radix4Base(_, b) | Node::Radix3Base(_, b) | Node::Rader(b) | Node::Bluestein(_, b) => format!("{}<{}>", kind(self), kind(b)),
            _ => kind(self).to_string(),
        }
    }
}

pub enum BuildErr {
    /// a constructor panicked although its documented preconditions hold
    Panic(String, String),
    /// the scratch preconditions of a *Small constructor are not met by these children: not a valid program, skip
    Skip,
}

fn butterfly<T: FftNum>(n: usize, d: rustfft::FftDirection) -> Arc<dyn Fft<T>> {
    match n {
        1 => Arc::new(Butterfly1::new(d)),
        2 => Arc::new(Butterfly2::new(d)),
        3 => Arc::new(Butterfly3::new(d)),
        4 => Arc::new(Butterfly4::new(d)),
        5 => Arc::new(Butterfly5::new(d)),
        6 => Arc::new(Butterfly6::new(d)),
        7 => Arc::new(Butterfly7::new(d)),
        8 => Arc::new(Butterfly8::new(d)),
        9 => Arc::new(Butterfly9::new(d)),
        11 => Arc::new(Butterfly11::new(d)),
        12 => Arc::new(Butterfly12::new(d)),
        13 => Arc::new(Butterfly13::new(d)),
        16 => Arc::new(Butterfly16::new(d)),
        17 => Arc::new(Butterfly17::new(d)),
        19 => Arc::new(Butterfly19::new(d)),
        23 => Arc::new(Butterfly23::new(d)),
        24 => Arc::new(Butterfly24::new(d)),
        27 => Arc::new(Butterfly27::new(d)),
        29 => Arc::new(Butterfly29::new(d)),
        31 => Arc::new(Butterfly31::new(d)),
        32 => Arc::new(Butterfly32::new(d)),
        _ => panic!("harness bug: no butterfly of length {}", n),
    }
}

fn guarded<T: FftNum>(name: &str, f: impl FnOnce() -> Arc<dyn Fft<T>>) -> Result<Arc<dyn Fft<T>>, BuildErr> {
    catch_unwind(AssertUnwindSafe(f)).map_err(|e| BuildErr::Panic(name.to_string(), panic_message(e)))
}

pub fn build<T: FftNum>(node: &Node, dir: Dir) -> Result<Arc<dyn Fft<T>>, BuildErr> {
    let d = fdir(dir);
    match node {
        Node::Butterfly(n) => guarded("Butterfly::new", || butterfly::<T>(*n, d)),
        Node::Dft(n) => guarded("Dft::new", || Arc::new(Dft::new(*n, d))),
        Node::Radix4New(n) => guarded("Radix4::new", || Arc::new(Radix4::new(*n, d))),
        Node::Radix3New(n) => guarded("Radix3::new", || Arc::new(Radix3::new(*n, d))),
        Node::Planned(pk, n) => {
            let mut p = AnyPlanner::<T>::new(*pk).ok_or(BuildErr::Skip)?;
            guarded("planner.plan_fft", || p.plan(*n, dir))
        }
        Node::MixedRadix(a, b) => {
            let (fa, fb) = (build::<T>(a, dir)?, build::<T>(b, dir)?);
            guarded("MixedRadix::new", || Arc::new(MixedRadix::new(fa, fb)))
        }
        Node::GoodThomas(a, b) => {
            let (fa, fb) = (build::<T>(a, dir)?, build::<T>(b, dir)?);
            guarded("GoodThomasAlgorithm::new", || Arc::new(GoodThomasAlgorithm::new(fa, fb)))
        }
        Node::MixedRadixSmall(a, b) | Node::GoodThomasSmall(a, b) => {
            let (fa, fb) = (build::<T>(a, dir)?, build::<T>(b, dir)?);
            // the scratch conditions the *Small constructors assert with explicit messages are treated as preconditions
            if fa.get_outofplace_scratch_len() != 0
                || fb.get_outofplace_scratch_len() != 0
                || fa.get_inplace_scratch_len() > fa.len()
                || fb.get_inplace_scratch_len() > fb.len()
            {
                return Err(BuildErr::Skip);
            }
            if matches!(node, Node::MixedRadixSmall(..)) {
                guarded("MixedRadixSmall::new", || Arc::new(MixedRadixSmall::new(fa, fb)))
            } else {
                guarded("GoodThomasAlgorithmSmall::new", || Arc::new(GoodThomasAlgorithmSmall::new(fa, fb)))
            }
        }
        Node::Radix4Base(k, b) => {
            let fb = build::<T>(b, dir)?;
            guarded("Radix4::new_with_base", || Arc::new(Radix4::new_with_base(*k, fb)))
        }
        Node::Radix3Base(k, b) => {
            let fb = build::<T>(b, dir)?;
            guarded("Radix3::new_with_base", || Arc::new(Radix3::new_with_base(*k, fb)))
        }
        Node::Rader(b) => {
            let fb = build::<T>(b, dir)?;
            guarded("RadersAlgorithm::new", || Arc::new(RadersAlgorithm::new(fb)))
        }
        Node::Bluestein(n, b) => {
            let fb = build::<T>(b, dir)?;
            guarded("BluesteinsAlgorithm::new", || Arc::new(BluesteinsAlgorithm::new(*n, fb)))
        }
    }
}

fn gcd(a: usize, b: usize) -> usize {
    if b == 0 {
        a
    } else {
        gcd(b, a % b)
    }
}

/// all leaf kinds available for a length (1..=32)
fn leaf_kinds(n: usize, float_planners: bool) -> Vec<Node> {
    let mut v = vec![];
    if BUTTERFLY_LENS.contains(&n) {
        v.push(Node::Butterfly(n));
    }
    v.push(Node::Dft(n));
    v.push(Node::Planned(PK::Scalar, n));
    v.push(Node::Planned(PK::Auto, n));
    if n.is_power_of_two() {
        v.push(Node::Radix4New(n));
    }
    if [1usize, 3, 9, 27].contains(&n) {
        v.push(Node::Radix3New(n));
    }
    if float_planners {
        v.push(Node::Planned(PK::Sse, n));
        v.push(Node::Planned(PK::Avx, n));
    }
    v
}

/// wrap a child in every unary constructor whose documented precondition holds
fn unary_over(child: &Node, max_len: usize, out: &mut Vec<Node>) {
    let l = child.len();
    for k in 0..=3u32 {
        if (l << (2 * k)) <= max_len {
            out.push(Node::Radix4Base(k, Box::new(child.clone())));
        }
        if l * 3usize.pow(k) <= max_len {
            out.push(Node::Radix3Base(k, Box::new(child.clone())));
        }
    }
    if is_prime(l + 1) && l + 1 <= max_len {
        out.push(Node::Rader(Box::new(child.clone())));
    }
    // Bluestein: inner length >= 2*len - 1, len >= 1
    let top = (l + 1) / 2;
    let mut lens = vec![1usize, 2, top, top.saturating_sub(1), (top + 1) / 2, 3, 5, 7];
    lens.retain(|n| *n >= 1 && 2 * *n - 1 <= l && *n <= max_len);
    lens.sort();
    lens.dedup();
    for n in lens {
        out.push(Node::Bluestein(n, Box::new(child.clone())));
    }
}

fn binary_over(a: &Node, b: &Node, max_len: usize, out: &mut Vec<Node>) {
    if a.len() * b.len() > max_len {
        return;
    }
    out.push(Node::MixedRadix(Box::new(a.clone()), Box::new(b.clone())));
    out.push(Node::MixedRadixSmall(Box::new(a.clone()), Box::new(b.clone())));
    if gcd(a.len(), b.len()) == 1 {
        out.push(Node::GoodThomas(Box::new(a.clone()), Box::new(b.clone())));
        out.push(Node::GoodThomasSmall(Box::new(a.clone()), Box::new(b.clone())));
    }
}

/// Deterministic enumeration of trees of depth <= 2. `all_kinds`: every leaf kind (thorough) or a rotating choice (quick).
pub fn enumerate(max_len: usize, all_kinds: bool, float_planners: bool, rng: &mut Rng, depth2_budget: usize, big_leaves: bool) -> Vec<Node> {
    let mut rot = 0usize;
    let mut leaves_for = |n: usize| -> Vec<Node> {
        let kinds = leaf_kinds(n, float_planners);
        if all_kinds {
            kinds
        } else {
            rot += 1;
            vec![kinds[rot % kinds.len()].clone()]
        }
    };
    let mut depth1: Vec<Node> = vec![];
    // every leaf kind alone (depth 0) is covered by the planner/butterfly monitors; start at depth 1
    for a in 1..=32usize {
        for la in leaves_for(a) {
            unary_over(&la, max_len, &mut depth1);
        }
        for b in 1..=32usize {
            if a * b > max_len {
                continue;
            }
            let las = leaves_for(a);
            let lbs = leaves_for(b);
            for la in &las {
                // pair each kind of a with one kind of b (full product would be 49x larger without new constructor/kind pairs)
                let lb = &lbs[(a + b) % lbs.len()];
                binary_over(la, lb, max_len, &mut depth1);
            }
        }
    }
    // planner-produced transforms of *any* length as inner transforms (the README idiom MixedRadix::new(planner.plan(30), planner.plan(40))):
    // every unary constructor over planned(m), and binary constructors pairing planned(m) with a small leaf
    if big_leaves {
        let mut ms: Vec<usize> = (33..=if all_kinds { 1100 } else { 600 }).filter(|m| is_prime(m + 1)).collect();
        ms.extend_from_slice(&[36, 48, 60, 64, 100, 128, 166, 192, 243, 256, 384, 512, 1024]);
        if all_kinds {
            ms.extend((33..=200).filter(|m| !is_prime(m + 1)));
        }
        ms.sort();
        ms.dedup();
        for (i, m) in ms.iter().copied().enumerate() {
            let pk = if float_planners { ALL_PK[i % 4] } else { [PK::Auto, PK::Scalar][i % 2] };
            let leaf = Node::Planned(pk, m);
            let mut tmp = vec![];
            unary_over(&leaf, max_len.max(2 * m), &mut tmp);
            let small = 2 + i % 9;
            for lb in leaves_for(small) {
                binary_over(&leaf, &lb, max_len.max(small * m), &mut tmp);
                binary_over(&lb, &leaf, max_len.max(small * m), &mut tmp);
            }
            // keep the Rader / Bluestein / radix wrappers always, subsample the rest when not enumerating everything
            for t in tmp {
                let keep = all_kinds || matches!(t, Node::Rader(_)) || rng.chance(0.25);
                if keep && t.len() <= 8192 {
                    depth1.push(t);
                }
            }
        }
    }
    let mut out = depth1.clone();
    // depth 2: every unary constructor over a depth-1 tree, and binary constructors pairing a depth-1 tree with a leaf
    let mut depth2: Vec<Node> = vec![];
    for t in &depth1 {
        if t.len() == 0 || t.len() > max_len {
            continue;
        }
        unary_over(t, max_len, &mut depth2);
        let b = 1 + (rng.below(32) as usize);
        for lb in leaves_for(b) {
            if rng.chance(0.5) {
                binary_over(t, &lb, max_len, &mut depth2);
            } else {
                binary_over(&lb, t, max_len, &mut depth2);
            }
        }
    }
    if depth2.len() > depth2_budget {
        // keep a seeded subsample (bounded-exhaustive "where the composite length stays small": prefer short ones)
        depth2.sort_by_key(|t| t.len());
        let keep_small = depth2_budget / 2;
        let mut kept: Vec<Node> = depth2[..keep_small].to_vec();
        let rest = &depth2[keep_small..];
        for _ in 0..(depth2_budget - keep_small) {
            kept.push(rest[rng.below(rest.len() as u64) as usize].clone());
        }
        depth2 = kept;
    }
    out.extend(depth2);
    out
}

pub fn random_tree(rng: &mut Rng, depth: usize, max_len: usize, float_planners: bool) -> Node {
    let leaf = |rng: &mut Rng| {
        let n = 1 + rng.below(32) as usize;
        let kinds = leaf_kinds(n, float_planners);
        kinds[rng.below(kinds.len() as u64) as usize].clone()
    };
    if depth == 0 {
        return leaf(rng);
    }
    for _ in 0..40 {
        let choice = rng.below(8);
        let a = random_tree(rng, depth - 1, max_len, float_planners);
        let cand = match choice {
            0 | 1 | 2 | 3 => {
                let b = if rng.chance(0.7) { leaf(rng) } else { random_tree(rng, depth - 1, max_len, float_planners) };
                let (a, b) = if rng.chance(0.5) { (a, b) } else { (b, a) };
                let cop = gcd(a.len(), b.len()) == 1;
                match (choice, cop) {
                    (0, _) => Node::MixedRadix(Box::new(a), Box::new(b)),
                    (1, _) => Node::MixedRadixSmall(Box::new(a), Box::new(b)),
                    (2, true) => Node::GoodThomas(Box::new(a), Box::new(b)),
                    (3, true) => Node::GoodThomasSmall(Box::new(a), Box::new(b)),
                    _ => Node::MixedRadix(Box::new(a), Box::new(b)),
                }
            }
            4 => Node::Radix4Base(rng.below(4) as u32, Box::new(a)),
            5 => Node::Radix3Base(rng.below(4) as u32, Box::new(a)),
            6 => {
                if is_prime(a.len() + 1) {
                    Node::Rader(Box::new(a))
                } else {
                    continue;
                }
            }
            _ => {
                let top = (a.len() + 1) / 2;
                if top < 1 {
                    continue;
                }
                let n = 1 + rng.below(top as u64) as usize;
                Node::Bluestein(n, Box::new(a))
            }
        };
        if cand.len() >= 1 && cand.len() <= max_len {
            return cand;
        }
    }
    leaf(rng)
}

// ---------------------------------------------------------------------------------------------

fn report_ctor_panic(st: &mut Stats, tree: &Node, ty: &str, ctor: &str, msg: &str) {
    st.violation("C12", "c12", &format!("tree={} type={} len={}", tree.describe(), ty, tree.len()), vec![
        ("what", J::s("a public constructor panicked although its documented preconditions hold")),
        ("constructor", J::s(ctor)),
        ("panic", J::s(msg)),
    ]);
}

fn check_exact(st: &mut Stats, tree: &Node, seed: u64, basis_max: usize) {
    let n = tree.len();
    let mut skip = false;
    let mut ctor_panic: Option<(String, String)> = None;
    let res = catch_unwind(AssertUnwindSafe(|| {
        fp::with_field(&[n.max(1) as u64], || {
            let mut v = vec![];
            for dir in DIRS {
                match build::<Fp>(tree, dir) {
                    Ok(f) => v.push((dir, f)),
                    Err(BuildErr::Skip) => skip = true,
                    Err(BuildErr::Panic(c, m)) => ctor_panic = Some((c, m)),
                }
            }
            v
        })
    }));
    if let Some((c, m)) = ctor_panic {
        report_ctor_panic(st, tree, "Fp", &c, &m);
        return;
    }
    if skip {
        st.inc("trees_skipped_small_scratch_precondition");
        return;
    }
    let (ffts, _info) = match res {
        Ok(Ok(x)) => x,
        Ok(Err(e)) => {
            st.inc("trees_inconclusive_field");
            st.set("inconclusive_reasons", e.reason().split('(').next().unwrap_or("?"));
            return;
        }
        Err(p) => {
            st.violation("C12", "c12", &format!("tree={} type=Fp", tree.describe()), vec![
                ("what", J::s("building the tree panicked outside a constructor")), ("panic", J::s(&panic_message(p)))]);
            return;
        }
    };
    let cfg = ExactCfg { basis_max, n_impulses: 8, n_random: 2, entries: ALL_ENTRIES.to_vec() };
    let mut rng = Rng::new(mix(&[seed, n as u64, 0x7EE]));
    for (dir, fft) in &ffts {
        if fft.len() != n {
            st.violation("C12", "c12", &format!("tree={} type=Fp", tree.describe()), vec![("what", J::s("composite reports a length other than the product/sum its constructors define")), ("reported", J::u(fft.len()))]);
            continue;
        }
        let base = format!("tree={} type=Fp dir={} len={}", tree.describe(), dname(*dir), n);
        exact_check(st, "C12", "c12-exact", &base, &**fft, *dir, &cfg, &mut rng);
    }
    st.inc("trees_checked_exactly");
}

fn check_float<T: Elem>(st: &mut Stats, tree: &Node, seed: u64, thorough: bool, light: bool) {
    let n = tree.len();
    for dir in DIRS {
        let fft = match build::<T>(tree, dir) {
            Ok(f) => f,
            Err(BuildErr::Skip) => {
                st.inc("float_trees_skipped");
                return;
            }
            Err(BuildErr::Panic(c, m)) => {
                report_ctor_panic(st, tree, T::NAME, &c, &m);
                return;
            }
        };
        let base = format!("tree={} type={} dir={} n={}", tree.describe(), T::NAME, dname(dir), n);
        crate::guard::set_case(&format!("C12 {}", base));
        let mut rng = Rng::new(mix(&[seed, n as u64, dir as u64, 0xF107]));
        if n >= 1 && !light {
            // C01 in floats: a dense vector and a few impulses against the double-double reference at 4B
            let reff = RefFft::new(n);
            let b = bound_b::<T>(n);
            let x = inputs::gen::<T>(InClass::Uniform, n, &mut rng);
            let r = invoke(&*fft, &x, &plain_shape(&*fft, Entry::Inplace, n));
            st.inc("evaluations");
            if r.outcome.is_ok() {
                let e = compare(&r.result, &reff.transform(&widen(&x), dir));
                st.worst(&format!("worst_l2_over_4B_{}", T::NAME), e.rel_l2 / (4.0 * b), || base.clone());
                if !(e.rel_l2 <= 4.0 * b) {
                    st.violation("C12", "c12-float", &format!("{} input=uniform", base), vec![("what", J::s("C01: composite differs from the DFT beyond 4B")), ("rel_l2", J::Num(e.rel_l2))]);
                }
            } else {
                st.violation("C12", "c12-float", &base, vec![("what", J::s("C09: well-shaped call on the composite panicked")), ("panic", J::s(&r.outcome.unwrap_err()))]);
                continue;
            }
            for j in [0usize, n / 2, n - 1] {
                let r = invoke(&*fft, &inputs::impulse::<T>(n, j), &plain_shape(&*fft, Entry::Immut, n));
                st.inc("evaluations");
                if r.outcome.is_ok() {
                    let e = compare(&r.result, &impulse_dft(n, j, dir, &reff.tw));
                    if !(e.max_abs <= 4.0 * b) {
                        st.violation("C12", "c12-float", &format!("{} input=impulse{}", base, j), vec![("what", J::s("C01: matrix entry off by more than 4B")), ("max_abs", J::Num(e.max_abs))]);
                    }
                }
            }
        }
        // C03 / C07 / C08 / C09 machinery on guard-paged buffers
        if !light {
            crate::shape::c07_fft(st, "C12", &base, &fft, n, &mut rng, false);
            crate::shape::c08_fft(st, "C12", &base, &fft, n, &mut rng, false);
            crate::shape::c09_fft(st, "C12", &base, &fft, n, &mut rng, thorough);
        }
        crate::shape::c03_fft(st, "C12", &base, &fft, n, &mut rng, false, true);
    }
    st.inc("trees_checked_in_floats");
}

pub fn run(args: &Args) {
    let t = args.tier_thorough;
    let mut st = Stats::new();
    let light = args.flag("light");
    let max_len = args.get_usize("max-len").unwrap_or(if t { 2048 } else { 1024 });
    let mut rng = Rng::new(mix(&[args.seed, 0xC12]));
    let budget = args.get_usize("depth2-budget").unwrap_or(if light { 150 } else if t { 15000 } else { 6000 });
    let mut trees = if light {
        // (Miri / sanitizer sample) the full enumeration is itself too slow to interpret: draw small trees directly
        let keep = args.get_usize("trees").unwrap_or(200);
        let mut v = vec![];
        while v.len() < keep {
            let depth = 1 + (v.len() % 2);
            let t = random_tree(&mut rng, depth, 96, true);
            if t.depth() >= 1 {
                v.push(t);
            }
        }
        v
    } else if t {
        // thorough: the quick-style enumeration (rotating leaf kind) over a larger length bound and depth-2 budget, plus every
        // leaf kind exhaustively where the composite stays small (an all-kinds enumeration at full length is hours of work)
        let mut v = enumerate(max_len, false, true, &mut rng, budget, true);
        v.extend(enumerate(192, true, true, &mut rng, budget / 3, false));
        v
    } else {
        enumerate(max_len, false, true, &mut rng, budget, true)
    };
    let n_enumerated = trees.len();
    let n_random = args.get_usize("random").unwrap_or(if light { 20 } else if t { 3000 } else { 500 });
    for _ in 0..n_random {
        let depth = 1 + rng.below(4) as usize;
        trees.push(random_tree(&mut rng, depth, if light { 200 } else { 20000 }, true));
    }
    st.max("max_trees_total", trees.len());
    st.max("max_trees_enumerated_depth_le_2", n_enumerated);
    let only: Option<&str> = args.get("only-tree");
    let float_every = args.get_usize("float-every").unwrap_or(1);
    for (i, tree) in trees.iter().enumerate() {
        if let Some(o) = only {
            if tree.describe() != o {
                continue;
            }
        } else if !crate::cases::mine(i, args.shard) {
            continue;
        }
        st.inc("trees_built");
        st.set("constructor_x_child_kind", &tree.shape_key());
        st.max("max_depth", tree.depth());
        st.max("max_len", tree.len());
        st.set_distinct(&tree.describe());
        // planner-produced SSE/AVX leaves exist only for f32/f64; the exact check maps them to the portable planner
        let exact_tree = map_float_leaves(tree);
        if !args.flag("no-exact") && !light {
            check_exact(&mut st, &exact_tree, args.seed, if t { 128 } else { 64 });
        }
        if i % float_every == 0 {
            check_float::<f64>(&mut st, tree, args.seed, t, light);
            check_float::<f32>(&mut st, tree, args.seed, t, light);
        }
        if tree.depth() >= 2 {
            st.sample(3, || J::obj(vec![("tree", J::s(&tree.describe())), ("len", J::u(tree.len()))]));
        }
        if only.is_some() {
            break;
        }
    }
    st.emit_summary();
}

fn map_float_leaves(n: &Node) -> Node {
    let m = |b: &Box<Node>| Box::new(map_float_leaves(b));
    match n {
        Node::Planned(PK::Sse, l) | Node::Planned(PK::Avx, l) => Node::Planned(PK::Auto, *l),
        Node::MixedRadix(a, b) => Node::MixedRadix(m(a), m(b)),
        Node::MixedRadixSmall(a, b) => Node::MixedRadixSmall(m(a), m(b)),
        Node::GoodThomas(a, b) => Node::GoodThomas(m(a), m(b)),
        Node::GoodThomasSmall(a, b) => Node::GoodThomasSmall(m(a), m(b)),
        Node::Radix4Base(k, b) => Node::Radix4Base(*k, m(b)),
        Node::Radix3Base(k, b) => Node::Radix3Base(*k, m(b)),
        Node::Rader(b) => Node::Rader(m(b)),
        Node::Bluestein(l, b) => Node::Bluestein(*l, m(b)),
        other => other.clone(),
    }
}
