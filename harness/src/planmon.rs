//! Planner monitors:
//!   C04  every planner plans every length; reported length/direction; length 0 accepts an empty buffer; length 1 is the identity
//!   C05  operation counts of the portable transform (counting element type), no naive node > 32 in any plan, scratch <= 12n+64
//!   C06  forward/inverse round trip = n*x, inverse = conj . forward . conj, no scaling

use crate::cases;
use crate::cnt::{self, Cnt};
use crate::common::*;
use crate::inputs::{self, InClass};
use crate::out::J;
use crate::refdft::Dir;
use crate::rng::{mix, Rng};
use crate::stats::Stats;
use crate::Args;
use rustfft::{Fft, FftDirection, FftPlanner, FftPlannerAvx, FftPlannerSse};
use std::panic::{catch_unwind, AssertUnwindSafe};
use std::sync::Arc;

fn dir_ok(fft: &dyn Fft<impl rustfft::FftNum>, dir: Dir) -> bool {
    fft.fft_direction() == fdir(dir)
}

/// plan through `plan_fft` or `plan_fft_forward/inverse`, catching panics
fn try_plan<T: Elem>(planner: &mut AnyPlanner<T>, n: usize, dir: Dir, named: bool) -> Result<Arc<dyn Fft<T>>, String> {
    catch_unwind(AssertUnwindSafe(|| if named { planner.plan_named(n, dir) } else { planner.plan(n, dir) }))
        .map_err(panic_message)
}

// ---------------------------------------------------------------------------------------------
// C04

fn c04_check_instance<T: Elem>(st: &mut Stats, case: &str, fft: &Arc<dyn Fft<T>>, n: usize, dir: Dir, rng: &mut Rng) {
    st.inc("evaluations");
    st.inc("transforms_built");
    if fft.len() != n {
        st.violation("C04", "c04", case, vec![("what", J::s("reported length differs from the requested one")), ("reported", J::u(fft.len()))]);
    }
    if !dir_ok(&**fft, dir) {
        st.violation("C04", "c04", case, vec![("what", J::s("reported direction differs from the requested one"))]);
    }
    if n == 0 {
        for entry in ALL_ENTRIES {
            let r = invoke(&**fft, &[], &plain_shape(&**fft, entry, 0));
            st.inc("len0_empty_buffer_calls");
            if let Err(m) = r.outcome {
                st.violation("C04", "c04", &format!("{} entry={}", case, entry.name()), vec![
                    ("what", J::s("length-0 transform rejected an empty buffer")), ("panic", J::s(&m))]);
            }
        }
    }
    if n == 1 {
        for entry in ALL_ENTRIES {
            for k in [1usize, 3] {
                let mut data = inputs::gen::<T>(InClass::WideRange, k, rng);
                data[0] = C::new(T::from_f64r(-0.0), T::from_f64r(rng.sym()));
                let r = invoke(&**fft, &data, &plain_shape(&**fft, entry, k));
                st.inc("len1_identity_calls");
                match r.outcome {
                    Err(m) => st.violation("C04", "c04", &format!("{} entry={} k={}", case, entry.name(), k), vec![
                        ("what", J::s("length-1 transform panicked")), ("panic", J::s(&m))]),
                    Ok(()) => {
                        // identity as a map on values (IEEE equality, so -0.0 == +0.0; inputs are finite)
                        let same = r.result.len() == data.len() && r.result.iter().zip(data.iter()).all(|(a, b)| a.re == b.re && a.im == b.im);
                        if !same {
                            st.violation("C04", "c04", &format!("{} entry={} k={}", case, entry.name(), k), vec![
                                ("what", J::s("length-1 transform is not the identity"))]);
                        }
                    }
                }
            }
        }
    }
}

fn c04_sweep<T: Elem>(st: &mut Stats, args: &Args, lengths: &[usize], planners: &[PK]) {
    for &pk in planners {
        if AnyPlanner::<T>::new(pk).is_none() {
            st.inc("planner_unavailable");
            continue;
        }
        // fresh planner per (n, direction, method)
        for &n in lengths {
            let mut rng = Rng::new(mix(&[args.seed, n as u64, pk as u64]));
            for dir in DIRS {
                for named in [false, true] {
                    let case = format!("planner={} type={} dir={} n={} via={}", pk.name(), T::NAME, dname(dir), n,
                        if named { "plan_fft_forward/inverse" } else { "plan_fft" });
                    crate::guard::set_case(&format!("C04 {}", case));
                    let mut planner = AnyPlanner::<T>::new(pk).unwrap();
                    match try_plan(&mut planner, n, dir, named) {
                        Ok(fft) => {
                            drop(planner);
                            c04_check_instance(st, &case, &fft, n, dir, &mut rng);
                        }
                        Err(m) => st.violation("C04", "c04", &case, vec![("what", J::s("planner panicked")), ("panic", J::s(&m))]),
                    }
                }
            }
            st.set_distinct(&format!("{}|{}|{}", pk.name(), T::NAME, n));
        }
        // history-aware planning: one planner is first asked for up to three proper divisors of n (ascending, so that
        // they lie on n's radix chain and land in the planner's caches), then for n itself, same and mixed directions
        for &n in lengths {
            if n < 4 || n > 16384 {
                continue;
            }
            let mut rng = Rng::new(mix(&[args.seed, n as u64, pk as u64, 0xD1]));
            let mut divs: Vec<usize> = vec![];
            let mut m = n;
            for p in [2usize, 2, 2, 3, 3, 5, 7, 11, 2, 2, 2, 3] {
                if m % p == 0 && m / p >= 2 {
                    m /= p;
                    if rng.chance(0.6) {
                        divs.push(m);
                    }
                }
            }
            divs.sort();
            divs.dedup();
            if divs.len() > 3 {
                let drop = divs.len() - 3;
                divs.drain(0..drop);
            }
            if divs.is_empty() && crate::cases::is_prime(n) {
                continue;
            }
            for variant in 0..3 {
                if divs.is_empty() && variant != 2 {
                    continue;
                }
                let mut planner = AnyPlanner::<T>::new(pk).unwrap();
                let main_dir = if (n + variant) % 2 == 0 { Dir::Fwd } else { Dir::Inv };
                let mut reqs: Vec<(usize, Dir)> = divs
                    .iter()
                    .enumerate()
                    .map(|(i, d)| (*d, if variant == 1 && i % 2 == 1 { if main_dir == Dir::Fwd { Dir::Inv } else { Dir::Fwd } } else { main_dir }))
                    .collect();
                reqs.push((n, main_dir));
                if variant == 2 {
                    // the other way round: n first, then its divisors (largest first), then its prime factors
                    reqs.reverse();
                    let mut m = n;
                    let mut p = 2;
                    while p * p <= m {
                        if m % p == 0 {
                            if p > 7 {
                                reqs.push((p, main_dir));
                            }
                            while m % p == 0 {
                                m /= p;
                            }
                        }
                        p += 1;
                    }
                    if m > 7 && m != n {
                        reqs.push((m, main_dir));
                    }
                }
                for (len, dir) in reqs.iter().copied() {
                    let case = format!("planner={} type={} dir={} n={} via=planner-with-history{:?}", pk.name(), T::NAME, dname(dir), len,
                        reqs.iter().map(|(l, d)| format!("{}{}", l, if *d == Dir::Fwd { "f" } else { "i" })).collect::<Vec<_>>());
                    match try_plan(&mut planner, len, dir, false) {
                        Ok(fft) => {
                            st.inc("history_planner_requests");
                            st.inc("evaluations");
                            if fft.len() != len || !dir_ok(&*fft, dir) {
                                st.violation("C04", "c04", &case, vec![
                                    ("what", J::s("wrong reported length/direction from a planner that had planned related lengths before")),
                                    ("reported_len", J::u(fft.len())),
                                ]);
                            }
                        }
                        Err(m) => {
                            st.violation("C04", "c04", &case, vec![("what", J::s("planner panicked")), ("panic", J::s(&m))]);
                            break;
                        }
                    }
                }
            }
        }
        // one long-lived planner per window of 64 consecutive lengths of this shard
        for window in lengths.chunks(64) {
            let mut planner = AnyPlanner::<T>::new(pk).unwrap();
            for (i, &n) in window.iter().enumerate() {
                let dir = if i % 2 == 0 { Dir::Fwd } else { Dir::Inv };
                let case = format!("planner={} type={} dir={} n={} via=long-lived-planner(window from {})", pk.name(), T::NAME, dname(dir), n, window[0]);
                match try_plan(&mut planner, n, dir, false) {
                    Ok(fft) => {
                        st.inc("long_lived_planner_requests");
                        st.inc("evaluations");
                        if fft.len() != n || !dir_ok(&*fft, dir) {
                            st.violation("C04", "c04", &case, vec![("what", J::s("wrong length/direction from a long-lived planner"))]);
                        }
                    }
                    Err(m) => st.violation("C04", "c04", &case, vec![("what", J::s("planner panicked")), ("panic", J::s(&m))]),
                }
            }
        }
    }
}

/// Plan-only sweep through the plan-report hook: recipe length == n, no panic. Also used by C05 (naive nodes).
fn plan_only<T: Elem>(st: &mut Stats, prop: &str, args: &Args, lo: usize, hi: usize, planners: &[PK], check_naive: bool) -> Vec<usize> {
    // lengths whose *portable* plan nests Rader/Bluestein deepest (largest first): candidates for actual operation counting
    let mut deepest: Vec<(usize, usize)> = vec![];
    for &pk in planners {
        if pk == PK::Auto {
            continue; // Auto delegates to one of the concrete planners, which are swept directly
        }
        let mut planner = match AnyPlanner::<T>::new(pk) {
            Some(p) => p,
            None => continue,
        };
        let mut since = 0;
        let mut n = lo + args.shard.0;
        while n <= hi {
            if since >= 1024 {
                planner = AnyPlanner::<T>::new(pk).unwrap();
                since = 0;
            }
            since += 1;
            let dir = if n % 2 == 0 { Dir::Fwd } else { Dir::Inv };
            let case = format!("planner={} type={} n={} via=plan-report-hook", pk.name(), T::NAME, n);
            let r = catch_unwind(AssertUnwindSafe(|| planner.report(n, dir)));
            st.inc("plan_reports");
            st.inc("evaluations");
            match r {
                Err(p) => {
                    st.violation(prop, "plan-only", &case, vec![("what", J::s("planning panicked")), ("panic", J::s(&panic_message(p)))]);
                    planner = AnyPlanner::<T>::new(pk).unwrap();
                }
                Ok((text, len)) => {
                    if len != n {
                        st.violation(prop, "plan-only", &case, vec![("what", J::s("recipe length differs from the requested length")), ("recipe_len", J::u(len)), ("plan", J::s(&text))]);
                    }
                    if check_naive {
                        if let Some(m) = largest_naive_node(&text) {
                            st.max("max_naive_node_seen", m);
                            if m > 32 {
                                st.violation(prop, "plan-only", &case, vec![("what", J::s("plan contains a naive O(n^2) DFT node longer than 32")), ("node_len", J::u(m)), ("plan", J::s(&text))]);
                            }
                        }
                        let depth = text.matches("Inner").count() + text.matches("RadersAlgorithm").count() + text.matches("BluesteinsAlgorithm").count();
                        st.max("max_nesting_depth", depth);
                        if pk == PK::Scalar && depth >= 2 {
                            deepest.push((depth, n));
                            if deepest.len() > 64 {
                                deepest.sort_by(|a, b| b.cmp(a));
                                deepest.truncate(8);
                            }
                        }
                    }
                    if n % 4099 == 7 || n == hi {
                        for k in kinds_in(&text) {
                            st.set("kinds", &format!("{}:{}", pk.name(), k));
                        }
                    }
                    if n > 1000 && n % 65537 < args.shard.1 {
                        st.sample(2, || J::obj(vec![("case", J::s(&case)), ("plan", J::s(&text))]));
                    }
                }
            }
            n += args.shard.1;
        }
    }
    deepest.sort_by(|a, b| b.cmp(a));
    deepest.truncate(3);
    deepest.into_iter().map(|(_, n)| n).collect()
}

/// Largest m in any `Dft(m)` token of a plan text
fn largest_naive_node(text: &str) -> Option<usize> {
    let mut best = None;
    let mut rest = text;
    while let Some(i) = rest.find("Dft(") {
        let tail = &rest[i + 4..];
        let digits: String = tail.chars().take_while(|c| c.is_ascii_digit()).collect();
        if let Ok(m) = digits.parse::<usize>() {
            if best.map(|b| m > b).unwrap_or(true) {
                best = Some(m);
            }
        }
        rest = tail;
    }
    best
}

pub fn run_c04(args: &Args) {
    let t = args.tier_thorough;
    let mut st = Stats::new();
    let dense_max = args.get_usize("dense-max").unwrap_or(if t { 65536 } else { 4096 });
    let planners = ALL_PK.to_vec();
    // exhaustive dense sweep, this shard's share (interleaved so that every shard gets small and large n)
    let lengths: Vec<usize> = match args.get_usize("only-n") {
        Some(n) => vec![n],
        None => (0..=dense_max).filter(|n| cases::mine(*n, args.shard)).collect(),
    };
    c04_sweep::<f32>(&mut st, args, &lengths, &planners);
    c04_sweep::<f64>(&mut st, args, &lengths, &planners);
    st.max("max_dense_n", dense_max);
    if args.get("only-n").is_none() {
        // structured large n, built for real
        let smax = args.get_usize("struct-max").unwrap_or(if t { 1 << 21 } else { 1 << 17 });
        let count = if t { 300 } else { 60 };
        let s: Vec<usize> = cases::structured(smax).into_iter().filter(|n| *n > dense_max).collect();
        let mut rng = Rng::new(mix(&[args.seed, 0xC04]));
        let s = cases::subsample(&s, count, &mut rng);
        let mine: Vec<usize> = s.iter().enumerate().filter(|(i, _)| cases::mine(*i, args.shard)).map(|(_, n)| *n).collect();
        for &n in &mine {
            for &pk in &planners {
                for dir in DIRS {
                    let case = format!("planner={} type=f64 dir={} n={} via=plan_fft(structured)", pk.name(), dname(dir), n);
                    let mut p = match AnyPlanner::<f64>::new(pk) { Some(p) => p, None => continue };
                    match try_plan(&mut p, n, dir, false) {
                        Ok(fft) => {
                            st.inc("evaluations");
                            st.inc("structured_large_built");
                            st.max("max_structured_n", n);
                            if fft.len() != n || !dir_ok(&*fft, dir) {
                                st.violation("C04", "c04", &case, vec![("what", J::s("wrong length/direction"))]);
                            }
                        }
                        Err(m) => st.violation("C04", "c04", &case, vec![("what", J::s("planner panicked")), ("panic", J::s(&m))]),
                    }
                    let case32 = format!("planner={} type=f32 dir={} n={} via=plan_fft(structured)", pk.name(), dname(dir), n);
                    let mut p = match AnyPlanner::<f32>::new(pk) { Some(p) => p, None => continue };
                    match try_plan(&mut p, n, dir, false) {
                        Ok(fft) => {
                            st.inc("evaluations");
                            st.inc("structured_large_built");
                            if fft.len() != n || !dir_ok(&*fft, dir) {
                                st.violation("C04", "c04", &case32, vec![("what", J::s("wrong length/direction"))]);
                            }
                        }
                        Err(m) => st.violation("C04", "c04", &case32, vec![("what", J::s("planner panicked")), ("panic", J::s(&m))]),
                    }
                }
            }
        }
        // plan-only sweep through the hook
        let hi = args.get_usize("plan-only-max").unwrap_or(if t { 1 << 22 } else { 1 << 18 });
        let _ = plan_only::<f64>(&mut st, "C04", args, 0, hi, &planners, false);
        let _ = plan_only::<f32>(&mut st, "C04", args, 0, hi, &planners, false);
        st.max("max_plan_only_n", hi);
        if t && args.shard.0 == 0 {
            // a few dozen structured lengths up to 2^26, plan-only (f32 sqrt factorisation limit lies above 2^24)
            let big: Vec<usize> = cases::structured(1 << 26).into_iter().filter(|n| *n > (1 << 22)).collect();
            let mut rng = Rng::new(mix(&[args.seed, 0xB16]));
            for n in cases::subsample(&big, 60, &mut rng) {
                for &pk in &[PK::Scalar, PK::Sse, PK::Avx] {
                    if let Some(mut p) = AnyPlanner::<f32>::new(pk) {
                        let case = format!("planner={} type=f32 n={} via=plan-report-hook(big)", pk.name(), n);
                        match catch_unwind(AssertUnwindSafe(|| p.report(n, Dir::Fwd))) {
                            Ok((text, len)) => {
                                st.inc("plan_reports_big");
                                st.max("max_plan_only_big_n", n);
                                if len != n {
                                    st.violation("C04", "plan-only", &case, vec![("what", J::s("recipe length differs")), ("plan", J::s(&text))]);
                                }
                            }
                            Err(e) => st.violation("C04", "plan-only", &case, vec![("what", J::s("planning panicked")), ("panic", J::s(&panic_message(e)))]),
                        }
                    }
                }
            }
        }
    }
    st.sample(1, || J::obj(vec![("case", J::s(&format!("every n in 0..={} x 4 planners x f32/f64 x fwd/inv x plan_fft|plan_fft_forward/inverse, fresh planner each", dense_max)))]));
    st.emit_summary();
}

// ---------------------------------------------------------------------------------------------
// C05

fn c05_counts(st: &mut Stats, args: &Args, lengths: &[usize]) {
    // the counting type is neither f32 nor f64: the SIMD planners must decline, FftPlanner must fall back to portable code
    if FftPlannerAvx::<Cnt>::new().is_ok() || FftPlannerSse::<Cnt>::new().is_ok() {
        st.violation("C05", "opcount", "type=Cnt", vec![("what", J::s("a SIMD planner accepted the counting element type"))]);
        return;
    }
    for &n in lengths {
        if n < 2 {
            continue;
        }
        let mut rng = Rng::new(mix(&[args.seed, n as u64, 0xC05]));
        let mut planner = FftPlanner::<Cnt>::new();
        for dir in [FftDirection::Forward, FftDirection::Inverse] {
            if dir == FftDirection::Inverse && n % 3 != 0 {
                continue; // the inverse shares the algorithm; sample it on a third of the lengths
            }
            let fft = planner.plan_fft(n, dir);
            let bound = 64.0 * n as f64 * (n as f64).log2();
            let mut per_input: Vec<(u64, u64, u64)> = vec![];
            for (ii, k) in [(0usize, 1usize), (1, 1), (2, 1), (1, 3)] {
                let data: Vec<C<Cnt>> = (0..k * n)
                    .map(|_| match ii {
                        0 => C::new(Cnt(0.0), Cnt(0.0)),
                        1 => C::new(Cnt(rng.sym()), Cnt(rng.sym())),
                        _ => C::new(Cnt(1e300 * rng.sym()), Cnt(-1e300 * rng.unit())),
                    })
                    .collect();
                let mut buf = data.clone();
                let mut scratch = vec![C::new(Cnt(0.0), Cnt(0.0)); fft.get_inplace_scratch_len()];
                cnt::reset_counts();
                fft.process_with_scratch(&mut buf, &mut scratch);
                let (a, s, m, _neg, d, other) = cnt::counts();
                st.inc("evaluations");
                st.inc("counted_transforms");
                let case = format!("planner=auto(type=Cnt) dir={:?} n={} k={} input={}", dir, n, k, ["zeros", "random", "huge"][ii]);
                if d != 0 || other != 0 {
                    st.set("note_nonring_ops_during_transform", &format!("divs={} other={} at {}", d, other, case));
                }
                let ops = (a + s + m) as f64 / k as f64;
                st.worst("worst_ops_over_bound", ops / bound, || format!("{} ops_per_chunk={} bound={:.0}", case, ops, bound));
                if ops > bound {
                    st.violation("C05", "opcount", &case, vec![
                        ("what", J::s("more than 64*n*log2(n) additions/subtractions/multiplications per chunk")),
                        ("ops_per_chunk", J::Num(ops)),
                        ("bound", J::Num(bound)),
                    ]);
                }
                if k == 1 {
                    per_input.push((a, s, m));
                } else if let Some(first) = per_input.get(1) {
                    // k chunks must cost exactly k times one chunk
                    if (a, s, m) != (first.0 * k as u64, first.1 * k as u64, first.2 * k as u64) {
                        st.violation("C05", "opcount", &case, vec![("what", J::s("operation count of k chunks is not k times the count of one chunk"))]);
                    }
                }
            }
            if per_input.windows(2).any(|w| w[0] != w[1]) {
                st.violation("C05", "opcount", &format!("planner=auto(type=Cnt) dir={:?} n={}", dir, n), vec![
                    ("what", J::s("operation count depends on the input values")),
                    ("counts", J::s(&format!("{:?}", per_input))),
                ]);
            }
            if n >= 100 {
                st.sample(2, || J::obj(vec![("case", J::s(&format!("type=Cnt n={} dir={:?}", n, dir))), ("adds_subs_muls", J::s(&format!("{:?}", per_input[0]))), ("bound_64nlog2n", J::Num(bound))]));
            }
        }
        st.set_distinct(&format!("cnt|{}", n));
    }
}

fn c05_scratch<T: Elem>(st: &mut Stats, args: &Args, lengths: &[usize]) {
    for &pk in &ALL_PK {
        for &n in lengths {
            for dir in DIRS {
                if dir == Dir::Inv && n % 2 == 1 && n > 64 {
                    continue;
                }
                let mut p = match AnyPlanner::<T>::new(pk) { Some(p) => p, None => continue };
                let fft = match try_plan(&mut p, n, dir, false) { Ok(f) => f, Err(_) => { st.inc("plan_panics_reported_by_C04"); continue } };
                let limit = 12 * n + 64;
                let lens = [fft.get_inplace_scratch_len(), fft.get_outofplace_scratch_len(), fft.get_immutable_scratch_len()];
                st.inc("evaluations");
                st.inc("scratch_reports_checked");
                let worst = *lens.iter().max().unwrap();
                let case = format!("planner={} type={} dir={} n={}", pk.name(), T::NAME, dname(dir), n);
                if n >= 8 {
                    st.worst("worst_scratch_over_limit", worst as f64 / limit as f64, || format!("{} scratch(inplace,outofplace,immut)={:?} limit={}", case, lens, limit));
                }
                if worst > limit {
                    st.violation("C05", "scratch", &case, vec![
                        ("what", J::s("advertised scratch length exceeds 12n+64")),
                        ("scratch_lens", J::s(&format!("{:?}", lens))),
                        ("limit", J::u(limit)),
                    ]);
                }
            }
            st.set_distinct(&format!("scr|{}|{}|{}", pk.name(), T::NAME, n));
        }
    }
    // scratch lengths must not depend on what the planner planned before either: two long-lived planners per kind, one
    // primed with large lengths and then swept upwards, one swept downwards
    for &pk in &ALL_PK {
        for pass in 0..2 {
            let mut p = match AnyPlanner::<T>::new(pk) { Some(p) => p, None => continue };
            let mut order: Vec<usize> = lengths.iter().copied().filter(|n| *n >= 2 && *n <= 8192).collect();
            if pass == 0 {
                for big in [65536usize, 49152, 32768 * 5, 8192] {
                    let _ = try_plan(&mut p, big, if big % 5 == 0 { Dir::Inv } else { Dir::Fwd }, false);
                }
            } else {
                order.reverse();
            }
            for (i, &n) in order.iter().enumerate() {
                let dir = if (i + pass) % 2 == 0 { Dir::Fwd } else { Dir::Inv };
                let fft = match try_plan(&mut p, n, dir, false) { Ok(f) => f, Err(_) => { st.inc("plan_panics_reported_by_C04"); break } };
                let limit = 12 * n + 64;
                let lens = [fft.get_inplace_scratch_len(), fft.get_outofplace_scratch_len(), fft.get_immutable_scratch_len()];
                st.inc("evaluations");
                st.inc("scratch_reports_from_planners_with_history");
                let worst = *lens.iter().max().unwrap();
                if worst > limit {
                    let case = format!("planner={} type={} dir={} n={} via=long-lived planner ({})", pk.name(), T::NAME, dname(dir), n,
                        if pass == 0 { "primed with 65536, 49152, 163840, 8192, then ascending" } else { "descending" });
                    st.violation("C05", "scratch", &case, vec![
                        ("what", J::s("advertised scratch length exceeds 12n+64 for a transform returned by a planner with history")),
                        ("scratch_lens", J::s(&format!("{:?}", lens))),
                        ("limit", J::u(limit)),
                    ]);
                }
            }
        }
    }
    let _ = args;
}

pub fn run_c05(args: &Args) {
    let t = args.tier_thorough;
    let mut st = Stats::new();
    let part = args.get("part").unwrap_or("all").to_string();
    if let Some(n) = args.get_usize("only-n") {
        c05_counts(&mut st, args, &[n]);
        c05_scratch::<f32>(&mut st, args, &[n]);
        c05_scratch::<f64>(&mut st, args, &[n]);
        let sh = Args { cmd: String::new(), opts: Default::default(), tier_thorough: t, seed: args.seed, shard: (0, 1) };
        let _ = plan_only::<f64>(&mut st, "C05", &sh, n, n, &ALL_PK, true);
        let _ = plan_only::<f32>(&mut st, "C05", &sh, n, n, &ALL_PK, true);
        st.emit_summary();
        return;
    }
    if part == "all" || part == "counts" {
        let dense_max = args.get_usize("dense-max").unwrap_or(if t { 32768 } else { 4096 });
        let mut lengths: Vec<usize> = (2..=dense_max).filter(|n| cases::mine(*n, args.shard)).collect();
        let smax = if t { 1 << 20 } else { 1 << 17 };
        let s: Vec<usize> = cases::structured(smax).into_iter().filter(|n| *n > dense_max).collect();
        let mut rng = Rng::new(mix(&[args.seed, 0xC051]));
        let s = cases::subsample(&s, if t { 200 } else { 60 }, &mut rng);
        lengths.extend(s.iter().enumerate().filter(|(i, _)| cases::mine(*i, args.shard)).map(|(_, n)| *n));
        c05_counts(&mut st, args, &lengths);
        st.max("max_counted_n", *lengths.iter().max().unwrap_or(&0));
    }
    if part == "all" || part == "scratch" {
        let dense_max = args.get_usize("scratch-max").unwrap_or(if t { 65536 } else { 8192 });
        let mut lengths: Vec<usize> = (0..=dense_max).filter(|n| cases::mine(*n, args.shard)).collect();
        let smax = if t { 1 << 21 } else { 1 << 17 };
        let s: Vec<usize> = cases::structured(smax).into_iter().filter(|n| *n > dense_max).collect();
        let mut rng = Rng::new(mix(&[args.seed, 0xC052]));
        let s = cases::subsample(&s, if t { 200 } else { 40 }, &mut rng);
        lengths.extend(s.iter().enumerate().filter(|(i, _)| cases::mine(*i, args.shard)).map(|(_, n)| *n));
        c05_scratch::<f32>(&mut st, args, &lengths);
        c05_scratch::<f64>(&mut st, args, &lengths);
    }
    if part == "all" || part == "plans" {
        let hi = args.get_usize("plan-only-max").unwrap_or(if t { 1 << 22 } else { 1 << 20 });
        let candidates = plan_only::<f64>(&mut st, "C05", args, 0, hi, &ALL_PK, true);
        let _ = plan_only::<f32>(&mut st, "C05", args, 0, hi, &ALL_PK, true);
        st.max("max_plan_only_n", hi);
        // workload selection guided by the hook: count for real the lengths whose portable plan nests Rader/Bluestein deepest
        if part == "all" {
            st.add("deep_nesting_candidates_counted", candidates.len());
            for c in &candidates {
                st.set("deep_nesting_candidates", &c.to_string());
            }
            c05_counts(&mut st, args, &candidates);
        }
    }
    st.emit_summary();
}

// ---------------------------------------------------------------------------------------------
// C06

fn l2_diff_scaled<T: Elem>(z: &[C<T>], x: &[C<T>], scale: f64) -> (f64, f64) {
    // || z - scale*x ||_2 and ||scale * x||_2, in f64 (products with an integer scale < 2^23 of f32/f64 values are exact enough:
    // the comparison tolerance is ~1e2 eps)
    let mut num = 0.0;
    let mut den = 0.0;
    for (a, b) in z.iter().zip(x.iter()) {
        let br = scale * b.re.to_f64();
        let bi = scale * b.im.to_f64();
        let dr = a.re.to_f64() - br;
        let di = a.im.to_f64() - bi;
        num += dr * dr + di * di;
        den += br * br + bi * bi;
    }
    (num.sqrt(), den.sqrt())
}

fn c06_type<T: Elem>(st: &mut Stats, args: &Args, lengths: &[usize]) {
    let entries = ALL_ENTRIES;
    for &n in lengths {
        if n == 0 {
            continue;
        }
        let b = bound_b::<T>(n);
        let tol = 2.5 * b;
        for &pk in &ALL_PK {
            if AnyPlanner::<T>::new(pk).is_none() {
                continue;
            }
            let mut rng = Rng::new(mix(&[args.seed, n as u64, pk as u64, T::EPS.to_bits(), 0xC06]));
            // both orders of requesting the two directions from one planner
            for order in 0..2 {
                if n > (1 << 18) && order == 1 {
                    continue;
                }
                let mut planner = AnyPlanner::<T>::new(pk).unwrap();
                let (fwd, inv) = if order == 0 {
                    let f = planner.plan(n, Dir::Fwd);
                    let i = planner.plan(n, Dir::Inv);
                    (f, i)
                } else {
                    let i = planner.plan_named(n, Dir::Inv);
                    let f = planner.plan_named(n, Dir::Fwd);
                    (f, i)
                };
                drop(planner);
                let case_base = format!("planner={} type={} n={} order={}", pk.name(), T::NAME, n, if order == 0 { "fwd-then-inv" } else { "inv-then-fwd" });
                crate::guard::set_case(&format!("C06 {}", case_base));
                let classes: Vec<(&str, Vec<C<T>>)> = {
                    let mut v = vec![("uniform", inputs::gen::<T>(InClass::Uniform, n, &mut rng))];
                    if n <= (1 << 16) {
                        v.push(("impulse", inputs::impulse::<T>(n, rng.range(0, n - 1))));
                        v.push(("constant", inputs::gen::<T>(InClass::Constant, n, &mut rng)));
                        v.push(("wide_range", inputs::gen::<T>(InClass::WideRange, n, &mut rng)));
                    }
                    v
                };
                for (ci, (cname, x)) in classes.iter().enumerate() {
                    let e1 = entries[(ci + n + order) % 4];
                    let e2 = entries[(ci + 2 * n + 1) % 4];
                    let case = format!("{} input={} first_entry={} second_entry={}", case_base, cname, e1.name(), e2.name());
                    // forward then inverse
                    let y = invoke(&*fwd, x, &plain_shape(&*fwd, e1, n));
                    let z = if y.outcome.is_ok() { Some(invoke(&*inv, &y.result, &plain_shape(&*inv, e2, n))) } else { None };
                    st.add("evaluations", 2);
                    st.inc("round_trips");
                    match &z {
                        Some(z) if z.outcome.is_ok() => {
                            let (num, den) = l2_diff_scaled(&z.result, x, n as f64);
                            let ratio = if den > 0.0 { num / den / tol } else if num == 0.0 { 0.0 } else { f64::INFINITY };
                            st.worst(&format!("worst_roundtrip_{}", T::NAME), ratio, || case.clone());
                            if !(ratio <= 1.0) {
                                st.violation("C06", "c06", &format!("{} trip=fwd,inv", case), vec![
                                    ("what", J::s("inverse(forward(x)) differs from n*x beyond rounding")),
                                    ("rel_err", J::Num(num / den.max(f64::MIN_POSITIVE))),
                                    ("tolerance", J::Num(tol)),
                                ]);
                            }
                        }
                        _ => st.violation("C06", "c06", &case, vec![("what", J::s("a well-shaped call panicked during the round trip"))]),
                    }
                    // inverse then forward
                    let y2 = invoke(&*inv, x, &plain_shape(&*inv, e2, n));
                    let z2 = if y2.outcome.is_ok() { Some(invoke(&*fwd, &y2.result, &plain_shape(&*fwd, e1, n))) } else { None };
                    st.add("evaluations", 2);
                    st.inc("round_trips");
                    match &z2 {
                        Some(z2) if z2.outcome.is_ok() => {
                            let (num, den) = l2_diff_scaled(&z2.result, x, n as f64);
                            let ratio = if den > 0.0 { num / den / tol } else if num == 0.0 { 0.0 } else { f64::INFINITY };
                            st.worst(&format!("worst_roundtrip_{}", T::NAME), ratio, || case.clone());
                            if !(ratio <= 1.0) {
                                st.violation("C06", "c06", &format!("{} trip=inv,fwd", case), vec![
                                    ("what", J::s("forward(inverse(x)) differs from n*x beyond rounding")),
                                    ("rel_err", J::Num(num / den.max(f64::MIN_POSITIVE))),
                                    ("tolerance", J::Num(tol)),
                                ]);
                            }
                        }
                        _ => st.violation("C06", "c06", &case, vec![("what", J::s("a well-shaped call panicked during the round trip"))]),
                    }
                    // conjugation identity: inverse(x) == conj(forward(conj(x)))   (y2 = inverse(x))
                    if y2.outcome.is_ok() {
                        let xc: Vec<C<T>> = x.iter().map(|c| c.conj()).collect();
                        let f = invoke(&*fwd, &xc, &plain_shape(&*fwd, e1, n));
                        st.inc("evaluations");
                        st.inc("conjugation_identities");
                        if f.outcome.is_ok() {
                            let fc: Vec<C<T>> = f.result.iter().map(|c| c.conj()).collect();
                            let (num, _) = l2_diff_scaled(&y2.result, &fc, 1.0);
                            // ||X||_2 = sqrt(n) ||x||_2
                            let xnorm = l2_norm(x) * (n as f64).sqrt();
                            let ratio = if xnorm > 0.0 { num / xnorm / tol } else { 0.0 };
                            st.worst(&format!("worst_conj_identity_{}", T::NAME), ratio, || case.clone());
                            if !(ratio <= 1.0) {
                                st.violation("C06", "c06", &format!("{} identity=conj", case), vec![
                                    ("what", J::s("inverse(x) differs from conj(forward(conj(x))) beyond rounding (a scaling or a direction mix-up)")),
                                    ("rel_err", J::Num(num / xnorm.max(f64::MIN_POSITIVE))),
                                    ("tolerance", J::Num(tol)),
                                ]);
                            }
                        }
                    }
                    if n >= 100 && ci == 0 {
                        st.sample(2, || J::obj(vec![("case", J::s(&case))]));
                    }
                }
            }
            st.set_distinct(&format!("{}|{}|{}", pk.name(), T::NAME, n));
            st.max(&format!("max_n_{}_{}", pk.name(), T::NAME), n);
        }
    }
}

pub fn run_c06(args: &Args) {
    let t = args.tier_thorough;
    let mut st = Stats::new();
    let lengths = crate::shape::lengths_from_args(
        args,
        if t { 4096 } else { 2048 },
        if t { 1 << 19 } else { 1 << 18 },
        if t { 100 } else { 90 },
        0xC06,
    );
    let mut lengths = lengths;
    // prime sweep: primes are where the special algorithms (Rader, Bluestein) and their number theory live; the round trip
    // is oracle-free, so every prime up to the bound is affordable
    if args.get("only-n").is_none() && args.get("ns").is_none() {
        let dense_max = args.get_usize("dense-max").unwrap_or(if t { 4096 } else { 2048 });
        let prime_max = args.get_usize("prime-max").unwrap_or(if t { 40000 } else { 20000 });
        let primes: Vec<usize> = (dense_max + 1..=prime_max).filter(|n| crate::cases::is_prime(*n)).collect();
        st.add("primes_in_sweep", primes.iter().enumerate().filter(|(i, _)| crate::cases::mine(*i, args.shard)).count());
        lengths.extend(primes.iter().enumerate().filter(|(i, _)| crate::cases::mine(*i, args.shard)).map(|(_, n)| *n));
        lengths.sort();
        lengths.dedup();
    }
    let types = args.get("types").unwrap_or("f32,f64").to_string();
    if types.contains("f32") {
        c06_type::<f32>(&mut st, args, &lengths);
    }
    if types.contains("f64") {
        c06_type::<f64>(&mut st, args, &lengths);
    }
    st.add("lengths", lengths.len());
    st.emit_summary();
}
