//! Double-double arithmetic (unevaluated sum of two f64, ~31 significant digits) and an
//! accurate sin/cos of rational multiples of 2*pi. Independent of the crate under test.

use std::ops::{Add, Mul, Neg, Sub};

#[derive(Copy, Clone, Debug, PartialEq, Default)]
pub struct DD {
    pub hi: f64,
    pub lo: f64,
}

#[inline(always)]
fn two_sum(a: f64, b: f64) -> (f64, f64) {
    let s = a + b;
    let bb = s - a;
    let e = (a - (s - bb)) + (b - bb);
    (s, e)
}
#[inline(always)]
fn quick_two_sum(a: f64, b: f64) -> (f64, f64) {
    let s = a + b;
    let e = b - (s - a);
    (s, e)
}
#[inline(always)]
fn split(a: f64) -> (f64, f64) {
    let t = 134217729.0 * a;
    let hi = t - (t - a);
    (hi, a - hi)
}
#[inline(always)]
fn two_prod(a: f64, b: f64) -> (f64, f64) {
    let p = a * b;
    let (ah, al) = split(a);
    let (bh, bl) = split(b);
    let e = ((ah * bh - p) + ah * bl + al * bh) + al * bl;
    (p, e)
}

impl DD {
    pub const ZERO: DD = DD { hi: 0.0, lo: 0.0 };
    pub const ONE: DD = DD { hi: 1.0, lo: 0.0 };
    /// pi/4
    pub const PI_4: DD = DD {
        hi: 0.7853981633974483,
        lo: 3.061616997868383e-17,
    };
    #[inline(always)]
    pub fn from_f64(x: f64) -> DD {
        DD { hi: x, lo: 0.0 }
    }
    #[inline(always)]
    pub fn to_f64(self) -> f64 {
        self.hi + self.lo
    }
    #[inline(always)]
    pub fn mul_f64(self, b: f64) -> DD {
        let (p, mut e) = two_prod(self.hi, b);
        e += self.lo * b;
        let (s, e) = quick_two_sum(p, e);
        DD { hi: s, lo: e }
    }
    pub fn div_f64(self, b: f64) -> DD {
        // long division, two correction steps
        let q1 = self.hi / b;
        let r = self - DD::from_f64(b).mul_f64(q1);
        let q2 = r.hi / b;
        let r = r - DD::from_f64(b).mul_f64(q2);
        let q3 = r.hi / b;
        let (s, e) = quick_two_sum(q1, q2);
        DD { hi: s, lo: e } + DD::from_f64(q3)
    }
    pub fn div(self, b: DD) -> DD {
        let q1 = self.hi / b.hi;
        let r = self - b.mul_f64(q1);
        let q2 = r.hi / b.hi;
        let r = r - b.mul_f64(q2);
        let q3 = r.hi / b.hi;
        let (s, e) = quick_two_sum(q1, q2);
        DD { hi: s, lo: e } + DD::from_f64(q3)
    }
    pub fn abs(self) -> DD {
        if self.hi < 0.0 || (self.hi == 0.0 && self.lo < 0.0) {
            -self
        } else {
            self
        }
    }
    pub fn sqr(self) -> DD {
        self * self
    }
}

impl Add for DD {
    type Output = DD;
    #[inline(always)]
    fn add(self, b: DD) -> DD {
        let (s, e) = two_sum(self.hi, b.hi);
        let (t, f) = two_sum(self.lo, b.lo);
        let e = e + t;
        let (s, e) = quick_two_sum(s, e);
        let e = e + f;
        let (s, e) = quick_two_sum(s, e);
        DD { hi: s, lo: e }
    }
}
impl Neg for DD {
    type Output = DD;
    #[inline(always)]
    fn neg(self) -> DD {
        DD {
            hi: -self.hi,
            lo: -self.lo,
        }
    }
}
impl Sub for DD {
    type Output = DD;
    #[inline(always)]
    fn sub(self, b: DD) -> DD {
        self + (-b)
    }
}
impl Mul for DD {
    type Output = DD;
    #[inline(always)]
    fn mul(self, b: DD) -> DD {
        let (p, mut e) = two_prod(self.hi, b.hi);
        e += self.hi * b.lo + self.lo * b.hi;
        let (s, e) = quick_two_sum(p, e);
        DD { hi: s, lo: e }
    }
}

/// Complex number with double-double components
#[derive(Copy, Clone, Debug, PartialEq, Default)]
pub struct Cdd {
    pub re: DD,
    pub im: DD,
}
impl Cdd {
    pub const ZERO: Cdd = Cdd {
        re: DD::ZERO,
        im: DD::ZERO,
    };
    pub const ONE: Cdd = Cdd {
        re: DD::ONE,
        im: DD::ZERO,
    };
    #[inline(always)]
    pub fn from_f64(re: f64, im: f64) -> Cdd {
        Cdd {
            re: DD::from_f64(re),
            im: DD::from_f64(im),
        }
    }
    #[inline(always)]
    pub fn conj(self) -> Cdd {
        Cdd {
            re: self.re,
            im: -self.im,
        }
    }
    #[inline(always)]
    pub fn scale(self, s: f64) -> Cdd {
        Cdd {
            re: self.re.mul_f64(s),
            im: self.im.mul_f64(s),
        }
    }
    pub fn norm_sqr_f64(self) -> f64 {
        let r = self.re.to_f64();
        let i = self.im.to_f64();
        r * r + i * i
    }
}
impl Add for Cdd {
    type Output = Cdd;
    #[inline(always)]
    fn add(self, b: Cdd) -> Cdd {
        Cdd {
            re: self.re + b.re,
            im: self.im + b.im,
        }
    }
}
impl Sub for Cdd {
    type Output = Cdd;
    #[inline(always)]
    fn sub(self, b: Cdd) -> Cdd {
        Cdd {
            re: self.re - b.re,
            im: self.im - b.im,
        }
    }
}
impl Mul for Cdd {
    type Output = Cdd;
    #[inline(always)]
    fn mul(self, b: Cdd) -> Cdd {
        Cdd {
            re: self.re * b.re - self.im * b.im,
            im: self.re * b.im + self.im * b.re,
        }
    }
}
impl Neg for Cdd {
    type Output = Cdd;
    fn neg(self) -> Cdd {
        Cdd {
            re: -self.re,
            im: -self.im,
        }
    }
}

/// sin and cos of a double-double angle in [0, pi/4] by Taylor series
fn sincos_small(theta: DD) -> (DD, DD) {
    if theta.hi == 0.0 && theta.lo == 0.0 {
        return (DD::ZERO, DD::ONE);
    }
    let x2 = theta.sqr();
    // sin
    let mut term = theta;
    let mut s = theta;
    let mut k = 1.0f64;
    for _ in 0..20 {
        term = (term * x2).div_f64((k + 1.0) * (k + 2.0));
        term = -term;
        s = s + term;
        k += 2.0;
        if term.hi.abs() < 1e-36 {
            break;
        }
    }
    // cos
    let mut term = DD::ONE;
    let mut c = DD::ONE;
    let mut k = 0.0f64;
    for _ in 0..20 {
        term = (term * x2).div_f64((k + 1.0) * (k + 2.0));
        term = -term;
        c = c + term;
        k += 2.0;
        if term.hi.abs() < 1e-36 {
            break;
        }
    }
    (s, c)
}

/// (cos, sin) of 2*pi*k/n in double-double, exact octant reduction on the integers.
pub fn cos_sin_2pi(k: u64, n: u64) -> (DD, DD) {
    assert!(n > 0);
    let r = (k % n) as u128;
    let n128 = n as u128;
    let m = 8 * r;
    let oct = (m / n128) as u32;
    let rem = (m % n128) as u64;
    // phi = (pi/4) * rem/n in [0, pi/4);  psi = pi/4 - phi
    let odd = oct % 2 == 1;
    let num = if odd { n - rem } else { rem };
    let theta = DD::PI_4.mul_f64(num as f64).div_f64(n as f64);
    let (s, c) = sincos_small(theta);
    match oct {
        0 => (c, s),
        1 => (s, c),
        2 => (-s, c),
        3 => (-c, s),
        4 => (-c, -s),
        5 => (-s, -c),
        6 => (s, -c),
        7 => (c, -s),
        _ => unreachable!(),
    }
}

/// exp(-2*pi*i*k/n)  (the forward DFT kernel)
pub fn twiddle_fwd(k: u64, n: u64) -> Cdd {
    let (c, s) = cos_sin_2pi(k, n);
    Cdd { re: c, im: -s }
}

pub fn selftest() -> Result<(), String> {
    // basic arithmetic: (1 + 2^-80)^2 - 1 = 2^-79 + 2^-160
    let a = DD {
        hi: 1.0,
        lo: 2f64.powi(-80),
    };
    let b = a * a - DD::ONE;
    if (b.hi - 2f64.powi(-79)).abs() > 1e-40 {
        return Err(format!("dd mul/sub wrong: {:?}", b));
    }
    let third = DD::ONE.div_f64(3.0);
    let one = third.mul_f64(3.0);
    if (one - DD::ONE).abs().to_f64() > 1e-31 {
        return Err("dd div wrong".into());
    }
    // exact values
    for n in [1u64, 2, 4, 8, 12, 16, 1000, 1 << 20] {
        for q in 0..8u64 {
            if (n * q) % 8 != 0 {
                continue;
            }
            let k = n * q / 8;
            let (c, s) = cos_sin_2pi(k, n);
            let h = std::f64::consts::FRAC_1_SQRT_2;
            let (ec, es) = match q {
                0 => (1.0, 0.0),
                1 => (h, h),
                2 => (0.0, 1.0),
                3 => (-h, h),
                4 => (-1.0, 0.0),
                5 => (-h, -h),
                6 => (0.0, -1.0),
                _ => (h, -h),
            };
            if (c.to_f64() - ec).abs() > 1.2e-16 || (s.to_f64() - es).abs() > 1.2e-16 {
                return Err(format!("cos_sin_2pi({},{}) wrong", k, n));
            }
            // sqrt(1/2) to full dd precision: c^2 must be 1/2
            if q % 2 == 1 {
                let e = (c.sqr() - DD::from_f64(0.5)).abs().to_f64();
                if e > 1e-31 {
                    return Err(format!("cos^2 != 1/2 to dd precision: {}", e));
                }
            }
        }
    }
    // pythagoras + libm agreement + angle addition on assorted arguments
    let mut st = 12345u64;
    for _ in 0..3000 {
        let n = 1 + crate::rng::splitmix64(&mut st) % 5_000_000;
        let k = crate::rng::splitmix64(&mut st) % (3 * n);
        let (c, s) = cos_sin_2pi(k, n);
        let e = (c.sqr() + s.sqr() - DD::ONE).abs().to_f64();
        if e > 1e-30 {
            return Err(format!("sin^2+cos^2 != 1 at {}/{}: {}", k, n, e));
        }
        let ang = 2.0 * std::f64::consts::PI * ((k % n) as f64) / (n as f64);
        if (c.to_f64() - ang.cos()).abs() > 1e-14 || (s.to_f64() - ang.sin()).abs() > 1e-14 {
            return Err(format!("cos_sin_2pi disagrees with libm at {}/{}", k, n));
        }
        // w^k * w^1 == w^(k+1)
        let w1 = twiddle_fwd(1, n);
        let wk = twiddle_fwd(k, n);
        let wk1 = twiddle_fwd(k + 1, n);
        let d = wk * w1 - wk1;
        if d.norm_sqr_f64().sqrt() > 1e-30 {
            return Err(format!("twiddle product identity fails at {}/{}", k, n));
        }
    }
    Ok(())
}
