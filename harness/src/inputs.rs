//! Input vector classes (generated in the element type, so the reference sees exactly what the crate saw)

use crate::common::{Elem, C};
use crate::rng::Rng;

#[derive(Copy, Clone, PartialEq, Eq, Debug, Hash)]
pub enum InClass {
    Uniform,
    Positive,
    Gauss,
    Constant,
    Alternating,
    ToneOn,
    ToneOff,
    Sparse,
    WideRange,
}
pub const DENSE_CLASSES: [InClass; 9] = [
    InClass::Uniform,
    InClass::Positive,
    InClass::Gauss,
    InClass::Constant,
    InClass::Alternating,
    InClass::ToneOn,
    InClass::ToneOff,
    InClass::Sparse,
    InClass::WideRange,
];
impl InClass {
    pub fn name(self) -> &'static str {
        match self {
            InClass::Uniform => "uniform",
            InClass::Positive => "positive",
            InClass::Gauss => "gauss",
            InClass::Constant => "constant",
            InClass::Alternating => "alternating",
            InClass::ToneOn => "tone_on_bin",
            InClass::ToneOff => "tone_off_bin",
            InClass::Sparse => "sparse",
            InClass::WideRange => "wide_range",
        }
    }
}

fn c<T: Elem>(re: f64, im: f64) -> C<T> {
    C::new(T::from_f64r(re), T::from_f64r(im))
}

pub fn gen<T: Elem>(class: InClass, n: usize, rng: &mut Rng) -> Vec<C<T>> {
    match class {
        InClass::Uniform => (0..n).map(|_| c(rng.sym(), rng.sym())).collect(),
        InClass::Positive => (0..n)
            .map(|_| c(10.0 * rng.unit(), 10.0 * rng.unit()))
            .collect(),
        InClass::Gauss => (0..n).map(|_| c(rng.gauss(), rng.gauss())).collect(),
        InClass::Constant => {
            let v = (rng.sym() + 1.5, rng.sym() - 1.5);
            (0..n).map(|_| c(v.0, v.1)).collect()
        }
        InClass::Alternating => {
            let v = (rng.sym() + 1.5, rng.sym());
            (0..n)
                .map(|j| if j % 2 == 0 { c(v.0, v.1) } else { c(-v.0, -v.1) })
                .collect()
        }
        InClass::ToneOn | InClass::ToneOff => {
            let bin = if n > 0 { rng.below(n as u64) as f64 } else { 0.0 };
            let f = if class == InClass::ToneOn { bin } else { bin + 0.5 };
            let amp = 0.5 + rng.unit();
            (0..n)
                .map(|j| {
                    let ang = 2.0 * std::f64::consts::PI * f * (j as f64) / (n.max(1) as f64);
                    c(amp * ang.cos(), amp * ang.sin())
                })
                .collect()
        }
        InClass::Sparse => {
            let mut v = vec![c(0.0, 0.0); n];
            if n > 0 {
                let spikes = 1 + rng.below(4.min(n as u64)) as usize;
                for _ in 0..spikes {
                    let j = rng.below(n as u64) as usize;
                    v[j] = c(4.0 * rng.sym(), 4.0 * rng.sym());
                }
            }
            v
        }
        InClass::WideRange => (0..n)
            .map(|_| {
                let e = rng.range(0, 80) as i32 - 40;
                let s = 2f64.powi(e);
                c(s * rng.sym(), s * rng.sym())
            })
            .collect(),
    }
}

pub fn impulse<T: Elem>(n: usize, j: usize) -> Vec<C<T>> {
    let mut v = vec![c(0.0, 0.0); n];
    v[j] = c(1.0, 0.0);
    v
}

/// Every element a distinct finite bit pattern (includes -0.0), for the C15 before/after comparison
pub fn distinct<T: Elem>(len: usize, rng: &mut Rng) -> Vec<C<T>> {
    (0..len)
        .map(|j| {
            if j == 0 {
                c(-0.0, 0.0)
            } else {
                let a = (j as f64) * 0.001 + rng.unit() * 0.0005;
                let b = -(j as f64) * 0.002 - rng.unit() * 0.0005;
                c(a, b)
            }
        })
        .collect()
}
