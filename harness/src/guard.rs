//! Guard-page buffers: the data sits flush against a PROT_NONE page (trailing or leading), so an access one
//! element past (or before) the slice faults. Under Miri a plain Vec is used (Miri checks bounds itself).

use std::marker::PhantomData;

#[derive(Copy, Clone, PartialEq, Eq, Debug)]
pub enum Place {
    /// data ends exactly where the trailing guard page begins
    Tail,
    /// data begins exactly where the leading guard page ends
    Head,
}

#[cfg(not(miri))]
mod sys {
    extern "C" {
        pub fn mmap(addr: *mut u8, len: usize, prot: i32, flags: i32, fd: i32, off: i64) -> *mut u8;
        pub fn munmap(addr: *mut u8, len: usize) -> i32;
        pub fn mprotect(addr: *mut u8, len: usize, prot: i32) -> i32;
    }
    pub const PROT_NONE: i32 = 0;
    pub const PROT_READ: i32 = 1;
    pub const PROT_WRITE: i32 = 2;
    pub const MAP_PRIVATE: i32 = 2;
    pub const MAP_ANONYMOUS: i32 = 0x20;
    pub const PAGE: usize = 4096;
}

#[cfg(not(miri))]
pub struct GuardBuf<T: Copy> {
    base: *mut u8,
    total: usize,
    data: *mut T,
    len: usize,
    data_pages_start: *mut u8,
    data_pages_len: usize,
    _p: PhantomData<T>,
}

#[cfg(not(miri))]
impl<T: Copy> GuardBuf<T> {
    pub fn new(len: usize, place: Place, fill: T) -> Self {
        use sys::*;
        let bytes = len * std::mem::size_of::<T>();
        // Head placement starts the data `align_of::<T>()` bytes after the leading guard page: the pointer then has the
        // *minimal* alignment the element type allows (an aligned 16-byte SSE access to a Complex<f64> slice at 8 mod 16
        // traps), and an under-run of one whole element still reaches the guard page (elements are >= 2*align bytes)
        let head_shift = std::mem::align_of::<T>();
        let data_pages_len = ((bytes + head_shift + PAGE - 1) / PAGE).max(1) * PAGE;
        let total = data_pages_len + 2 * PAGE;
        unsafe {
            // reuse a mapping of the same size if this thread has one (mmap/munmap per call is slow)
            let pooled = POOL.with(|p| p.borrow_mut().take(total));
            let base = match pooled {
                Some(b) => b,
                None => {
                    let base = mmap(
                        std::ptr::null_mut(),
                        total,
                        PROT_NONE,
                        MAP_PRIVATE | MAP_ANONYMOUS,
                        -1,
                        0,
                    );
                    assert!(base as isize != -1, "mmap failed");
                    let rc = mprotect(base.add(PAGE), data_pages_len, PROT_READ | PROT_WRITE);
                    assert_eq!(rc, 0, "mprotect failed");
                    base
                }
            };
            let data_pages_start = base.add(PAGE);
            let data = match place {
                Place::Head => data_pages_start.add(head_shift),
                Place::Tail => data_pages_start.add(data_pages_len - bytes),
            } as *mut T;
            assert_eq!(data as usize % std::mem::align_of::<T>(), 0);
            for i in 0..len {
                data.add(i).write(fill);
            }
            GuardBuf {
                base,
                total,
                data,
                len,
                data_pages_start,
                data_pages_len,
                _p: PhantomData,
            }
        }
    }
    pub fn from_slice(src: &[T], place: Place) -> Self {
        let mut g = if src.is_empty() {
            // no fill value available; len 0 needs none
            unsafe { Self::new_uninit(0, place) }
        } else {
            Self::new(src.len(), place, src[0])
        };
        g.as_mut_slice().copy_from_slice(src);
        g
    }
    unsafe fn new_uninit(len: usize, place: Place) -> Self {
        assert_eq!(len, 0);
        // fill is never written for len == 0
        let fill: T = std::mem::zeroed();
        Self::new(0, place, fill)
    }
    pub fn as_slice(&self) -> &[T] {
        unsafe { std::slice::from_raw_parts(self.data, self.len) }
    }
    pub fn as_mut_slice(&mut self) -> &mut [T] {
        unsafe { std::slice::from_raw_parts_mut(self.data, self.len) }
    }
    /// make the data pages read-only (a store to the buffer now faults)
    pub fn protect_readonly(&mut self) {
        unsafe {
            let rc = sys::mprotect(self.data_pages_start, self.data_pages_len, sys::PROT_READ);
            assert_eq!(rc, 0);
        }
    }
    pub fn unprotect(&mut self) {
        unsafe {
            let rc = sys::mprotect(
                self.data_pages_start,
                self.data_pages_len,
                sys::PROT_READ | sys::PROT_WRITE,
            );
            assert_eq!(rc, 0);
        }
    }
    pub fn guarded_bytes(&self) -> usize {
        self.len * std::mem::size_of::<T>()
    }
}

#[cfg(not(miri))]
impl<T: Copy> Drop for GuardBuf<T> {
    fn drop(&mut self) {
        unsafe {
            // data pages are always handed back read-write
            sys::mprotect(
                self.data_pages_start,
                self.data_pages_len,
                sys::PROT_READ | sys::PROT_WRITE,
            );
            let base = self.base;
            let total = self.total;
            let kept = POOL.try_with(|p| p.borrow_mut().give(base, total)).unwrap_or(false);
            if !kept {
                sys::munmap(base, total);
            }
        }
    }
}

#[cfg(not(miri))]
struct Pool {
    free: std::collections::HashMap<usize, Vec<*mut u8>>,
    bytes: usize,
}
#[cfg(not(miri))]
impl Pool {
    const CAP_BYTES: usize = 64 << 20;
    const CAP_PER_SIZE: usize = 6;
    fn take(&mut self, total: usize) -> Option<*mut u8> {
        let v = self.free.get_mut(&total)?;
        let b = v.pop()?;
        self.bytes -= total;
        Some(b)
    }
    fn give(&mut self, base: *mut u8, total: usize) -> bool {
        if total > (4 << 20) || self.bytes + total > Self::CAP_BYTES {
            return false;
        }
        let v = self.free.entry(total).or_default();
        if v.len() >= Self::CAP_PER_SIZE {
            return false;
        }
        v.push(base);
        self.bytes += total;
        true
    }
}
#[cfg(not(miri))]
thread_local! {
    static POOL: std::cell::RefCell<Pool> = std::cell::RefCell::new(Pool { free: std::collections::HashMap::new(), bytes: 0 });
}

// Under Miri: a heap block of exactly the right size (Miri checks bounds byte-precisely), placed so that the data
// pointer has the *minimal* alignment the element type allows (address = align_of::<T>() modulo 2*align_of::<T>()):
// any access that assumes more alignment than the caller's slice guarantees is reported by Miri.
#[cfg(miri)]
pub struct GuardBuf<T: Copy> {
    base: *mut u8,
    layout: std::alloc::Layout,
    data: *mut T,
    len: usize,
    _p: PhantomData<T>,
}
#[cfg(miri)]
impl<T: Copy> GuardBuf<T> {
    pub fn new(len: usize, _place: Place, fill: T) -> Self {
        let al = std::mem::align_of::<T>();
        let bytes = len * std::mem::size_of::<T>();
        // block = [pad of `al` bytes][data]; block aligned to 2*al  =>  data aligned to exactly al
        let layout = std::alloc::Layout::from_size_align(bytes + al, 2 * al).unwrap();
        unsafe {
            let base = std::alloc::alloc(layout);
            assert!(!base.is_null());
            let data = base.add(al) as *mut T;
            for i in 0..len {
                data.add(i).write(fill);
            }
            GuardBuf { base, layout, data, len, _p: PhantomData }
        }
    }
    pub fn from_slice(src: &[T], place: Place) -> Self {
        if src.is_empty() {
            let fill: T = unsafe { std::mem::zeroed() };
            return Self::new(0, place, fill);
        }
        let mut g = Self::new(src.len(), place, src[0]);
        g.as_mut_slice().copy_from_slice(src);
        g
    }
    pub fn as_slice(&self) -> &[T] {
        unsafe { std::slice::from_raw_parts(self.data, self.len) }
    }
    pub fn as_mut_slice(&mut self) -> &mut [T] {
        unsafe { std::slice::from_raw_parts_mut(self.data, self.len) }
    }
    pub fn protect_readonly(&mut self) {}
    pub fn unprotect(&mut self) {}
    pub fn guarded_bytes(&self) -> usize {
        self.len * std::mem::size_of::<T>()
    }
}
#[cfg(miri)]
impl<T: Copy> Drop for GuardBuf<T> {
    fn drop(&mut self) {
        unsafe { std::alloc::dealloc(self.base, self.layout) }
    }
}

// ---------------------------------------------------------------------------------------------
// crash attribution: SIGSEGV/SIGBUS/SIGILL handler printing the current case id, then _exit(77)

#[cfg(not(miri))]
mod crash {
    use std::sync::atomic::{AtomicUsize, Ordering};
    extern "C" {
        fn signal(signum: i32, handler: usize) -> usize;
        fn write(fd: i32, buf: *const u8, n: usize) -> isize;
        fn _exit(code: i32) -> !;
    }
    const CAP: usize = 1024;
    static mut CASE: [u8; CAP] = [0; CAP];
    static CASE_LEN: AtomicUsize = AtomicUsize::new(0);

    extern "C" fn on_fault(sig: i32) {
        unsafe {
            let head = b"\n@@ {\"kind\":\"crash\",\"signal\":";
            write(1, head.as_ptr(), head.len());
            let d = [b'0' + (sig / 10) as u8, b'0' + (sig % 10) as u8];
            write(1, d.as_ptr(), 2);
            let mid = b",\"case\":\"";
            write(1, mid.as_ptr(), mid.len());
            let n = CASE_LEN.load(Ordering::SeqCst);
            let p = std::ptr::addr_of!(CASE) as *const u8;
            write(1, p, n);
            let tail = b"\"}\n";
            write(1, tail.as_ptr(), tail.len());
            _exit(77);
        }
    }
    pub fn install() {
        unsafe {
            for sig in [11, 7, 4, 8, 6] {
                signal(sig, on_fault as *const () as usize);
            }
        }
    }
    /// Record the case that is about to run (ASCII without quotes/backslashes)
    pub fn set_case(s: &str) {
        let b = s.as_bytes();
        let n = b.len().min(CAP);
        CASE_LEN.store(0, Ordering::SeqCst);
        unsafe {
            let p = std::ptr::addr_of_mut!(CASE) as *mut u8;
            for i in 0..n {
                let c = b[i];
                *p.add(i) = if c == b'"' || c == b'\\' || c < 0x20 { b'_' } else { c };
            }
        }
        CASE_LEN.store(n, Ordering::SeqCst);
    }
}
#[cfg(miri)]
mod crash {
    pub fn install() {}
    pub fn set_case(_s: &str) {}
}
pub use crash::{install as install_crash_handler, set_case};

/// Child-process self test: really faults when reading one element past a Tail buffer / before a Head buffer,
/// and when writing to a read-only buffer. Invoked as `fftmon guard-fault <which>`; must die in the handler.
#[cfg(not(miri))]
pub fn fault_probe(which: &str) {
    // element type of 16 bytes with 8-byte alignment, like Complex<f64>
    let mut g = GuardBuf::<[u64; 2]>::new(100, if which == "head" { Place::Head } else { Place::Tail }, [7, 7]);
    set_case(&format!("guard-probe-{}", which));
    unsafe {
        let p = g.as_mut_slice().as_mut_ptr();
        match which {
            "tail" => {
                let v = std::ptr::read_volatile(p.add(100));
                println!("read past the end succeeded: {:?}", v);
            }
            "head" => {
                let v = std::ptr::read_volatile(p.sub(1));
                println!("read before the start succeeded: {:?}", v);
            }
            "ro" => {
                g.protect_readonly();
                std::ptr::write_volatile(p.add(5), [9, 9]);
                println!("write to read-only buffer succeeded");
            }
            _ => println!("unknown probe"),
        }
    }
}
#[cfg(miri)]
pub fn fault_probe(_which: &str) {}
