#!/usr/bin/env python3
"""Regenerates MANIFEST.json from the property table in ./check (run after editing PROPS)."""
import importlib.machinery
import importlib.util
import json
import os

ROOT = os.path.dirname(os.path.abspath(__file__))
loader = importlib.machinery.SourceFileLoader("check_driver", os.path.join(ROOT, "check"))
spec = importlib.util.spec_from_loader("check_driver", loader)
drv = importlib.util.module_from_spec(spec)
loader.exec_module(drv)

NOT_APPLICABLE = {
    "C16": ("static property: 'every public item remains nameable with the same signatures and bounds' is decided by the "
            "type checker on a witness crate; no execution is observed, so runtime monitoring has no oracle for it "
            "(DESIGN.md section C16)"),
}
PENDING_REASON = "monitor not implemented yet in this framework (work in progress, see DESIGN.md)"


LEVEL_TEXT = {
 "C01": "Exploration with a reference-model oracle: every planner x f32/f64 x direction x entry point is executed on the complete impulse basis (small n), on impulses + a DC vector for every n up to the sweep bound and on dense vectors, and compared with an independent double-double DFT; the portable code is additionally decided with no tolerance in a prime field. A linear, data-oblivious transform is determined by its action on the basis, so for the lengths run the input quantifier is closed up to the rounding tolerance; lengths not run are not covered.",
 "C02": "Exploration: relative L2 error against a double-double reference for nine input classes plus the impulse basis, with the worst err/B(n) per octave of n reported so that a drift towards eps*sqrt(n) or eps*n is visible long before the bound is crossed. Decides the stated bound on the executions run; says nothing about the asymptotic claim beyond the largest n.",
 "C03": "Exploration under instrumentation: the real code runs on guard-paged, minimally aligned buffers of exactly the advertised sizes (native, release and debug-assertion builds), under Miri at four target-feature levels (byte-precise bounds, alignment, aliasing, uninitialised reads, unavailable target features) and, thorough tier, under ASan and valgrind memcheck. A clean run is not memory safety: paths and lengths not driven are not covered, red-zone tools miss far overflows (that is why Miri and the crate's own index assertions run too).",
 "C04": "Exhaustive exploration of the finite range: every n up to the bound is planned and constructed by every planner, type, direction and API variant with a panic observer, through fresh planners, planners with divisor-chain histories and long-lived planners; recipes up to 2^22 (thorough) through the plan-report hook.",
 "C05": "Exploration with an instrumented element type: exact counts of +,-,* of the portable transform (input-independent by construction of the check: three inputs must give identical counts), the scratch lengths of every built transform incl. planners with history, and the plan text of every planner; the hook selects the deepest Rader/Bluestein nestings for counting. The SIMD kernels' work is not counted (f32/f64 cannot be instrumented), only their plans and scratch.",
 "C06": "Exploration with oracle-free algebraic identities (round trip in both orders and both planning orders, conjugation identity), which reach far larger n than the reference model; every prime up to the bound is swept because the special algorithms and their number theory live there.",
 "C07": "Exploration with a differential oracle (multi-chunk vs single-chunk, bitwise or within 2.5B) and NaN-taint isolation, k = 1..8, rotating scratch lengths, all entry points, planner-produced and constructed instances.",
 "C08": "Exploration with taint and bitwise differencing: scratch of exactly the advertised length on guard pages must suffice; NaN/Inf/huge initial contents of scratch and output and longer scratch must not change a single output bit.",
 "C09": "Exploration with a panic observer over the call-shape matrix (data/out/scratch lengths), on guard pages so that 'did not panic' cannot hide behind an out-of-bounds read; well-shaped calls are also checked to have transformed every chunk.",
 "C10": "Bounded-exhaustive exploration of request histories (all sequences of length <= 3 over a pool built from every planner's base kinds and their inner lengths) plus random histories over divisor lattices; every returned transform is checked after its planner is dropped, against the reference model, its same-planner partner and a twin planner (bitwise).",
 "C11": "Exploration of schedules: 16 threads on one shared instance with reused dirty per-thread buffers, references from a twin instance so that first calls race, bitwise comparison; the same workload under ThreadSanitizer. Measured overlap of calls is reported. The 'for all interleavings' quantifier is only sampled; the structural half of the property (no interior mutability anywhere) is a static claim this family cannot decide.",
 "C12": "Bounded-exhaustive exploration of programs: constructor trees of depth <= 2 generated inside the documented preconditions (plus random trees to depth 4 and planner-produced leaves of any length), each checked exactly in a prime field, against the reference in f32/f64 and by the C03/C07/C08/C09 monitors on guard pages; a sample under Miri / debug assertions / ASan.",
 "C13": "Exploration of configurations: four cargo feature builds x four masked CPU capability levels (hook) x types, each with the constructor truth table, planning sweep, reference-model monitor and guard-page matrix; plus Miri at five target-feature/feature-set levels where entering a kernel whose instruction set is unavailable is reported as UB. Real CPUs without AVX2/SSE4.1 are emulated, NEON/WASM code is not executed.",
 "C14": "Exploration with instrumented element types: a prime-field type (exact equality with the DFT, any non-ring operation recorded), a double-double type, and 4- and 8-byte wrapper types that must be bit-identical to the portable float transform; every SIMD planner must decline each of them.",
 "C15": "Exploration with read-only input pages (a store faults even if it writes the same bits), a bitwise before/after comparison that also runs after panicking calls, and Miri (a store through the shared reference is UB and is reported even when an optimised build deletes it).",
}

ALL = ["C%02d" % i for i in range(1, 17)]
checks = []
for pid in ALL:
    if pid not in drv.PROPS:
        continue
    p = drv.PROPS[pid]
    checks.append(dict(
        property_id=pid,
        quick_cmd="./check %s --tier quick" % pid,
        thorough_cmd="./check %s --tier thorough" % pid,
        evidence_file="evidence/%s.json" % pid,
        replay_cmd_template="./check %s --replay {path}" % pid,
        engine="fftmon",
        level_claimed=dict(
            category="exploration",
            text=LEVEL_TEXT.get(pid, p.get("level_text", "held on the executions listed in the evidence file")),
            design_ref="DESIGN.md section 5 / " + pid,
        ),
        level_note=p.get("level_note", "trusted base: the harness oracles (double-double reference DFT, finite-field type, guard pages), "
                         "rustc/cargo, the kernel's page protection, and the tools named in 'technique'; nothing is claimed "
                         "for lengths, inputs or schedules that were not executed"),
        technique=p.get("technique", "runtime monitoring: reference-model oracle over executions"),
    ))
na = []
for pid in ALL:
    if pid in drv.PROPS:
        continue
    na.append(dict(property_id=pid, reason=NOT_APPLICABLE.get(pid, PENDING_REASON)))

manifest = dict(
    version=1,
    setup_cmd="./check setup",
    hooks=dict(
        guard="verif_hooks (cargo feature of the rustfft crate, off by default)",
        enable="the harness crate depends on rustfft with features=[\"verif_hooks\", ...]: cargo build --manifest-path harness/Cargo.toml",
        baseline_off_cmd="cd /repo && cargo test --workspace --no-fail-fast --offline",
        source_commits=drv.HOOK_COMMITS,
        add_only=True,
    ),
    engines=[dict(name="fftmon", path="harness/", serves_properties=[c["property_id"] for c in checks],
                  kind_free_text="Rust monitor binary (reference-model oracles, guard pages, taint, panic observers, thread stress) "
                                 "built against /repo in several variants (release, debug-assertions, feature subsets, ASan, TSan, Miri, "
                                 "valgrind) and driven by ./check")],
    checks=checks,
    notes="Driver: ./check <id> --tier quick|thorough (VERIF_SEED, VERIF_TIER honoured). Exit 0 held / 1 violation / 2 inconclusive.",
    not_applicable=na,
)
with open(os.path.join(ROOT, "MANIFEST.json"), "w") as f:
    json.dump(manifest, f, indent=1)
    f.write("\n")
print("MANIFEST.json written: %d checks, %d not_applicable" % (len(checks), len(na)))
