#!/usr/bin/env python3
"""Regenerates MANIFEST.json from the property table in ./check (run after editing PROPS)."""
import importlib.machinery
import importlib.util
import json
import os

ROOT = os.path.dirname(os.path.abspath(__file__))
loader = importlib.machinery.SourceFileLoader("check_driver", os.path.join(ROOT, "check"))
spec = importlib.util.spec_from_loader("check_driver", loader)
drv = importlib.util.module_from_spec(spec)
loader.exec_module(drv)

NOT_APPLICABLE = {
    "C16": ("static property: 'every public item remains nameable with the same signatures and bounds' is decided by the "
            "type checker on a witness crate; no execution is observed, so runtime monitoring has no oracle for it "
            "(DESIGN.md section C16)"),
}
PENDING_REASON = "monitor not implemented yet in this framework (work in progress, see DESIGN.md)"

ALL = ["C%02d" % i for i in range(1, 17)]
checks = []
for pid in ALL:
    if pid not in drv.PROPS:
        continue
    p = drv.PROPS[pid]
    checks.append(dict(
        property_id=pid,
        quick_cmd="./check %s --tier quick" % pid,
        thorough_cmd="./check %s --tier thorough" % pid,
        evidence_file="evidence/%s.json" % pid,
        replay_cmd_template="./check %s --replay {path}" % pid,
        engine="fftmon",
        level_claimed=dict(
            category="exploration",
            text=p.get("level_text", "held on the executions listed in the evidence file; runtime monitoring of the real code under "
                       "diverse and hostile workloads, oracle = " + p["title"]),
            design_ref="DESIGN.md section 5 / " + pid,
        ),
        level_note=p.get("level_note", "trusted base: the harness oracles (double-double reference DFT, finite-field type, guard pages), "
                         "rustc/cargo, the kernel's page protection, and the tools named in 'technique'; nothing is claimed "
                         "for lengths, inputs or schedules that were not executed"),
        technique=p.get("technique", "runtime monitoring: reference-model oracle over executions"),
    ))
na = []
for pid in ALL:
    if pid in drv.PROPS:
        continue
    na.append(dict(property_id=pid, reason=NOT_APPLICABLE.get(pid, PENDING_REASON)))

manifest = dict(
    version=1,
    setup_cmd="./check setup",
    hooks=dict(
        guard="verif_hooks (cargo feature of the rustfft crate, off by default)",
        enable="the harness crate depends on rustfft with features=[\"verif_hooks\", ...]: cargo build --manifest-path harness/Cargo.toml",
        baseline_off_cmd="cd /repo && cargo test --workspace --no-fail-fast --offline",
        source_commits=drv.HOOK_COMMITS,
        add_only=True,
    ),
    engines=[dict(name="fftmon", path="harness/", serves_properties=[c["property_id"] for c in checks],
                  kind_free_text="Rust monitor binary (reference-model oracles, guard pages, taint, panic observers, thread stress) "
                                 "built against /repo in several variants (release, debug-assertions, feature subsets, ASan, TSan, Miri, "
                                 "valgrind) and driven by ./check")],
    checks=checks,
    notes="Driver: ./check <id> --tier quick|thorough (VERIF_SEED, VERIF_TIER honoured). Exit 0 held / 1 violation / 2 inconclusive.",
    not_applicable=na,
)
with open(os.path.join(ROOT, "MANIFEST.json"), "w") as f:
    json.dump(manifest, f, indent=1)
    f.write("\n")
print("MANIFEST.json written: %d checks, %d not_applicable" % (len(checks), len(na)))
